"""C01 — an area's pixel grid, projection coordinates and lon/lats are one consistent map.

run(ctx):  generate areas x requests x points  ->  real pyresample (harness/impl/c01.py)
           -> property oracle (fractions.Fraction canonical map + pyproj reference; independent of the Coq model)
           -> correspondence (binary64 instance of Model/C01_Area.v evaluated by vm_compute, bit-exact; PROJ as finite tables).
"""
import math
import re
import struct
import warnings
from fractions import Fraction as Fr

import numpy as np

from .common import fhex as _fhex, evals, zlist

warnings.filterwarnings("ignore")
from pyproj import CRS, Proj, Transformer  # noqa: E402
from pyproj.enums import TransformDirection  # noqa: E402

PROP_FILE = "Properties/C01.v"
GEN = ["GenC01", "GenC01imp"]
RUN_FILES = ["Model/C01_run.v", "Model/C01_F32.v"]

U64 = 2.0 ** -53
U32 = 2.0 ** -24
EPS = 0.02                    # masked_ints' epsilon as documented; the exact binary64 value is used below
EPS_FR = Fr(EPS)
INV = TransformDirection.INVERSE

# name, CRS definition, box of the projection plane in which extents are drawn (xmin, ymin, xmax, ymax)
POOL = [
    ("longlat", "+proj=longlat +datum=WGS84 +no_defs", (-170.0, -80.0, 170.0, 80.0)),
    ("eqc", "+proj=eqc +lon_0=0 +datum=WGS84", (-1.8e7, -8.5e6, 1.8e7, 8.5e6)),
    ("merc", "+proj=merc +lon_0=10 +ellps=WGS84", (-1.5e7, -1.2e7, 1.5e7, 1.2e7)),
    ("stere_n", "+proj=stere +lat_0=90 +lon_0=0 +lat_ts=60 +ellps=WGS84", (-4e6, -4e6, 4e6, 4e6)),
    ("stere_s", "+proj=stere +lat_0=-90 +lon_0=0 +lat_ts=-71 +ellps=WGS84", (-4e6, -4e6, 4e6, 4e6)),
    ("laea", "+proj=laea +lat_0=52 +lon_0=10 +ellps=GRS80", (-3e6, -3e6, 3e6, 3e6)),
    ("lcc", "+proj=lcc +lat_1=30 +lat_2=60 +lat_0=45 +lon_0=10 +ellps=WGS84", (-3e6, -3e6, 3e6, 3e6)),
    ("tmerc", "+proj=tmerc +lat_0=0 +lon_0=15 +k=0.9996 +ellps=WGS84", (-5e5, -4e6, 5e5, 8e6)),
    ("geos", "+proj=geos +h=35785831 +lon_0=0 +a=6378169 +b=6356583.8", (-5.5e6, -5.5e6, 5.5e6, 5.5e6)),
    ("pm180", "+proj=eqc +pm=180 +datum=WGS84", (-1.5e7, -8e6, 1.5e7, 8e6)),
    ("pm_ll", "+proj=longlat +pm=180 +datum=WGS84 +no_defs", (-170.0, -80.0, 170.0, 80.0)),
    ("sphere", "+proj=laea +lat_0=90 +lon_0=0 +R=6371228", (-5e6, -5e6, 5e6, 5e6)),
    ("km", "+proj=stere +lat_0=90 +lon_0=0 +lat_ts=60 +ellps=WGS84 +units=km", (-4e3, -4e3, 4e3, 4e3)),
    ("epsg3857", "EPSG:3857", (-1.8e7, -1.5e7, 1.8e7, 1.5e7)),
    ("epsg4326", "EPSG:4326", (-170.0, -80.0, 170.0, 80.0)),
    ("epsg32633", "EPSG:32633", (1.7e5, 1e5, 8.3e5, 9e6)),
    ("ortho", "+proj=ortho +lat_0=40 +lon_0=10 +ellps=WGS84", (-4e6, -4e6, 4e6, 4e6)),
    ("ob_tran_eqc", "+proj=ob_tran +o_proj=eqc +o_lat_p=30 +o_lon_p=10 +lon_0=-10 +a=6371000.0", (-6e6, -4e6, 6e6, 4e6)),
    # on purpose: a Bound CRS (datum shift to WGS84 attached) and a derived geographic CRS (rotated pole)
    ("bound", "+proj=stere +lat_0=90 +lon_0=0 +ellps=bessel +towgs84=598.1,73.7,418.2,0.202,0.045,-2.455,6.7 +units=m",
     (-2e6, -2e6, 2e6, 2e6)),
    ("ob_tran_ll", "+proj=ob_tran +o_proj=longlat +o_lon_p=0 +o_lat_p=40 +lon_0=10 +ellps=WGS84", (-30.0, -30.0, 30.0, 30.0)),
]
POOL_D = {p[0]: p for p in POOL}

_routes = {}


class ViaTransformer:
    """Proj-like callable on top of a Transformer (lon/lat -> projection, inverse=True for the other way)."""

    def __init__(self, t):
        self.t = t

    def __call__(self, a, b, inverse=False):
        return self.t.transform(a, b, direction=INV) if inverse else self.t.transform(a, b)


def routes(crs_def):
    """The PROJ routes the code uses, built here from pyproj alone, and the reference geodetic inverse.
    T: Transformer(geodetic CRS of the area CRS, Greenwich, no datum shift -> CRS), INVERSE   (get_lonlats, _invproj, Proj_MP)
    P: the transformer of AreaDefinition._get_lonlat_transformer, same construction as T, both directions
       (colrow2lonlat and the get_*_from_* family; before fix 9e97bafd this was Proj(crs), which applies +towgs84)
    R: reference for the property text ("geodetic inverse"): Transformer(base geographic CRS, Greenwich -> CRS)."""
    if crs_def in _routes:
        return _routes[crs_def]
    crs = CRS.from_wkt(CRS(crs_def).to_wkt())

    def greenwich(g):
        if g.prime_meridian.longitude != 0:
            d = g.to_dict()
            d.pop("pm", None)
            g = CRS.from_dict(d)
        return g
    g = greenwich(crs.geodetic_crs)
    T = Transformer.from_crs(g, crs, always_xy=True)
    P = ViaTransformer(Transformer.from_crs(g, crs, always_xy=True))
    base = crs.source_crs if crs.is_bound else crs
    gb = base.geodetic_crs
    while gb.is_derived and gb.source_crs is not None:
        gb = gb.source_crs
    gb = greenwich(gb)
    R = T if (gb == g) else Transformer.from_crs(gb, crs, always_xy=True)
    cls = "bound" if crs.is_bound else ("derived_geographic" if (crs.is_derived and crs.is_geographic) else "plain")
    _routes[crs_def] = (T, P, R, cls)
    return _routes[crs_def]


def fhex(x):
    t = _fhex(x)
    return "PrimFloat." + t if t in ("nan", "infinity", "neg_infinity") else t


def bits(x):
    return struct.pack("<d", float(x))


def same(a, b):
    a, b = float(a), float(b)
    return (a != a and b != b) or bits(a) == bits(b)


def same_list(a, b):
    return len(a) == len(b) and all(same(x, y) for x, y in zip(a, b))


def flat(x):
    if isinstance(x, list):
        return [v for e in x for v in flat(e)]
    return [x]


def unit(lon, lat):
    lo, la = np.radians(np.asarray(lon, dtype=float)), np.radians(np.asarray(lat, dtype=float))
    return np.stack([np.cos(la) * np.cos(lo), np.cos(la) * np.sin(lo), np.sin(la)], axis=-1)


def ang_deg(lon1, lat1, lon2, lat2):
    with np.errstate(all="ignore"):
        d = np.linalg.norm(unit(lon1, lat1) - unit(lon2, lat2), axis=-1)
        return np.degrees(2 * np.arcsin(np.minimum(d / 2, 1.0)))


# ------------------------------------------------------------------------------------------------ generation
def ldexp_int(m, k):
    return float(Fr(m) * (Fr(2) ** k))


def gen_extent(rng, box, w, h, mode):
    bx0, by0, bx1, by1 = box
    bw, bh = bx1 - bx0, by1 - by0
    if mode == "dyadic":
        # power-of-two pixel sizes, corners on that lattice: every intermediate is exact in binary64
        kx = math.floor(math.log2(bw / (w * rng.choice([1.5, 3, 10, 40]))))
        ky = math.floor(math.log2(bh / (h * rng.choice([1.5, 3, 10, 40]))))
        if rng.random() < 0.6:
            kx = ky = min(kx, ky)
        px, py = 2.0 ** kx, 2.0 ** ky
        mx_lo, mx_hi = math.ceil(bx0 / px), math.floor(bx1 / px) - w
        my_lo, my_hi = math.ceil(by0 / py), math.floor(by1 / py) - h
        mx = rng.randint(mx_lo, max(mx_lo, mx_hi))
        my = rng.randint(my_lo, max(my_lo, my_hi))
        return [ldexp_int(mx, kx), ldexp_int(my, ky), ldexp_int(mx + w, kx), ldexp_int(my + h, ky)]
    if mode == "tiny":
        # pixel size tiny relative to the coordinates (many bits cancel)
        cx, cy = rng.uniform(bx0 + 0.2 * bw, bx1 - 0.2 * bw), rng.uniform(by0 + 0.2 * bh, by1 - 0.2 * bh)
        p = abs(cx) * 2.0 ** -rng.randint(20, 34) + 1e-9
        q = p * rng.choice([1, 1, 0.37, 2.5])
        return [cx, cy, cx + w * p, cy + h * q]
    if mode == "aspect":
        fx, fy = rng.choice([(0.9, 0.002), (0.002, 0.9), (0.5, 0.01)])
        x0 = rng.uniform(bx0, bx1 - fx * bw)
        y0 = rng.uniform(by0, by1 - fy * bh)
        return [x0, y0, x0 + fx * bw * rng.uniform(0.5, 1), y0 + fy * bh * rng.uniform(0.5, 1)]
    if mode == "round":
        # human-style round numbers
        step = 10.0 ** math.floor(math.log10(bw / 20))
        x0 = round(rng.uniform(bx0, bx0 + 0.6 * bw) / step) * step
        y0 = round(rng.uniform(by0, by0 + 0.6 * bh) / step) * step
        res = step * rng.choice([0.01, 0.025, 0.1, 0.3, 1]) * rng.choice([1, 1, 1, 3])
        x1 = min(x0 + w * res, bx1)
        y1 = min(y0 + h * res, by1)
        return [x0, y0, x1, y1]
    xs = sorted([rng.uniform(bx0, bx1), rng.uniform(bx0, bx1)])
    ys = sorted([rng.uniform(by0, by1), rng.uniform(by0, by1)])
    return [xs[0], ys[0], xs[1], ys[1]]


def gen_shape(rng):
    k = rng.random()
    if k < 0.12:
        return rng.choice([(1, 1), (1, rng.randint(2, 60)), (rng.randint(2, 60), 1), (2, 2), (1, 2), (2, 1)])
    if k < 0.62:
        return rng.randint(2, 12), rng.randint(2, 12)
    if k < 0.9:
        return rng.randint(5, 30), rng.randint(5, 30)
    return rng.randint(31, 60), rng.randint(31, 60)


def gen_slice1(rng, n, allow_int=False):
    k = rng.random()
    if allow_int and k < 0.15:
        return rng.randint(-n, n - 1)
    if k < 0.25:
        return None
    a, b = rng.randint(-n - 2, n + 2), rng.randint(-n - 2, n + 2)
    st = rng.choice([None, None, None, 1, 2, 3, -1])
    if st == -1:
        # dask mishandles out-of-range bounds with a negative step (external); keep them in range
        a, b = rng.randint(0, n - 1), rng.randint(0, n - 1)
        if a < b:
            a, b = b, a
        return [rng.choice([None, a]), rng.choice([None, b]), st]
    if rng.random() < 0.7 and a > b:
        a, b = b, a
    return [rng.choice([None, a]), rng.choice([None, b]), st]


def gen_pair(rng, h, w):
    """data_slice=(rows, cols); either part may be an integer index (axis dropped, numpy semantics)."""
    return ["pair", gen_slice1(rng, h, True), gen_slice1(rng, w, True)]


def has_int(sl):
    return sl is not None and sl[0] == "pair" and (isinstance(sl[1], int) or isinstance(sl[2], int))


def want_shape(sl, rows, cols):
    """shape numpy basic indexing gives: an integer index drops its axis"""
    if not has_int(sl):
        return [len(rows), len(cols)]
    return ([] if isinstance(sl[1], int) else [len(rows)]) + ([] if isinstance(sl[2], int) else [len(cols)])


INT_KEY = "C01.coords.int_index_shape"


def int_int_chunks(rq, res):
    """the known class: get_lonlats(data_slice=(int, int), chunks=...) raises AttributeError in _invproj (0-d blocks)"""
    sl = rq.get("slice")
    return (sl is not None and sl[0] == "pair" and isinstance(sl[1], int) and isinstance(sl[2], int)
            and rq.get("chunks") is not None and res.get("error") == "AttributeError")


def sel(n, s):
    """numpy basic indexing of an axis of length n, as an index list."""
    if s is None:
        return list(range(n))
    if isinstance(s, int):
        return [range(n)[s]]
    return list(range(n))[slice(*s)]


def gen_chunks(rng, h, w):
    def rag(n):
        out, left = [], n
        while left > 0:
            k = rng.choice([1, 1, 2, 3, 5, 8, 13, left])
            k = min(k, left)
            out.append(k)
            left -= k
        return out
    k = rng.random()
    if k < 0.25:
        return rng.choice([1, 2, 3, 5, 7, 16, 100])
    if k < 0.5:
        return [rng.choice([1, 2, 3, 5, 16, 100]), rng.choice([1, 2, 4, 7, 16, 100])]
    if k < 0.9:
        return [rag(h), rag(w)]
    return [rag(h), rng.choice([1, 3, 100])]


def nextafter(x, d):
    return float(np.nextafter(x, d))


def frac_targets(rng, n):
    """Fractional array coordinates worth testing on an axis of length n (exact rationals)."""
    e = EPS_FR
    h = Fr(1, 2)
    c = rng.randint(0, n - 1)
    out = [
        ("centre", Fr(c)), ("border", Fr(c) + h), ("border", Fr(c) - h), ("inside", Fr(c) + Fr(rng.randint(-499, 499), 1000)),
        ("edge_lo", -h), ("edge_hi", n - h),
        ("band_lo_in", -h - e / 2), ("band_hi_in", n - h + e / 2),
        ("band_lo_limit", -h - e), ("band_hi_limit", n - h + e),
        ("band_lo_out", -h - e * Fr(3, 2)), ("band_hi_out", n - h + e * Fr(3, 2)),
        ("out_half", -1), ("out_half", Fr(n)), ("out_far", Fr(-3) - n), ("out_far", Fr(2 * n + 3)),
        ("inside", Fr(rng.randint(0, 1000 * n), 1000) - h),
    ]
    return out


def gen_area(rng, tier_thorough, idx, force=None):
    if force:
        name, crs_def, box = force
    elif idx < 2 * len(POOL):
        name, crs_def, box = POOL[idx % len(POOL)]
    else:
        name, crs_def, box = rng.choice(POOL)
    h, w = gen_shape(rng)
    mode = rng.choice(["dyadic", "dyadic", "arbitrary", "arbitrary", "round", "round", "tiny", "aspect"])
    ext = gen_extent(rng, box, w, h, mode)
    flip = None
    r = rng.random()
    if r < 0.15:
        ext = [ext[0], ext[3], ext[2], ext[1]]
        flip = "y"
    elif r < 0.2:
        ext = [ext[2], ext[1], ext[0], ext[3]]
        flip = "x"
    spec = {"crs": crs_def, "extent": ext, "w": w, "h": h,
            "meta": {"crs_name": name, "mode": mode, "flip": flip, "idx": idx,
                     # accuracy granted to PROJ's forward/inverse pair, in projection units (1e-12 of the CRS's plane: ~1e-5 m)
                     "proj_acc": 1e-12 * max(abs(v) for v in box)}}
    # --- requests
    spec["vec_requests"] = [{"chunks": rng.choice([1, 3, 100, [rng.choice([1, 2, 100]), rng.choice([1, 5, 100])]]), "dtype": None}]
    if rng.random() < 0.3:
        spec["vec_requests"].append({"chunks": None, "dtype": "float32"})
    coords = [{"slice": None, "chunks": None, "dtype": None}]
    for _ in range(2):
        k = rng.random()
        if k < 0.2:
            sl = ["single", gen_slice1(rng, h)]
        elif k < 0.35:
            sl = ["pair", rng.randint(-h, h - 1), rng.randint(-w, w - 1)]
        else:
            sl = gen_pair(rng, h, w)
        coords.append({"slice": sl, "chunks": None, "dtype": None})
    for _ in range(2):
        sl = rng.choice([None, gen_pair(rng, h, w), ["single", gen_slice1(rng, h)]])
        coords.append({"slice": sl, "chunks": gen_chunks(rng, h, w), "dtype": None})
    coords.append({"slice": rng.choice([None, gen_pair(rng, h, w)]),
                   "chunks": rng.choice([None, gen_chunks(rng, h, w)]), "dtype": "float32"})
    spec["coords"] = coords
    ll = [{"slice": None, "chunks": None, "dtype": None},
          {"slice": gen_pair(rng, h, w), "chunks": None, "dtype": None},
          {"slice": rng.choice([None, gen_pair(rng, h, w)]), "chunks": gen_chunks(rng, h, w), "dtype": None}]
    if rng.random() < 0.25:
        ll.append({"slice": None, "chunks": rng.choice([None, gen_chunks(rng, h, w)]), "dtype": "float32"})
    if tier_thorough and idx % 12 == 0:
        ll.append({"slice": None, "chunks": None, "dtype": None, "nprocs": 2})
    spec["lonlats"] = ll
    # --- histories of lon/lat accessor calls on one object (the cache=True memo must never change what later calls describe)
    hists = []
    if h * w <= 400:
        exact = h * w <= 64            # small areas: also evaluated bit-exactly by the Coq state machine (float64 only)
        for _ in range(2 if exact else 1):
            hist = []
            for k in range(rng.randint(2, 5)):
                j = rng.random()
                if j < 0.6 or (k == 0 and j < 0.85):
                    sl = rng.choice([None, gen_pair(rng, h, w), gen_pair(rng, h, w),
                                     ["single", gen_slice1(rng, h)]])
                    ch = gen_chunks(rng, h, w) if rng.random() < 0.3 else None
                    cache = rng.random() < (0.7 if k == 0 else 0.45)
                    dt = "float32" if (not exact and not cache and rng.random() < 0.2) else None
                    hist.append({"op": "get_lonlats", "slice": sl, "chunks": ch, "dtype": dt, "cache": cache})
                elif j < 0.85:
                    hist.append({"op": "get_lonlat", "row": rng.randint(-h, h - 1), "col": rng.randint(-w, w - 1)})
                else:
                    hist.append({"op": "colrow2lonlat", "row": rng.randint(0, h - 1), "col": rng.randint(0, w - 1)})
            hists.append(hist)
        # a history in which the CALLER overwrites, in place, arrays it was handed (unit conversion, re-origin ...):
        # the object must keep describing the same grid through every accessor afterwards
        hist = []
        for k in range(rng.randint(3, 6)):
            j = rng.random()
            mut = rng.random() < (0.8 if k == 0 else 0.4)
            if j < 0.3:
                hist.append({"op": rng.choice(["get_proj_vectors", "projection_coords"]), "mutate": mut})
            elif j < 0.5:
                hist.append({"op": "get_proj_coords", "slice": rng.choice([None, gen_pair(rng, h, w)]),
                             "chunks": gen_chunks(rng, h, w) if rng.random() < 0.25 else None, "mutate": mut})
            elif j < 0.8:
                hist.append({"op": "get_lonlats", "slice": rng.choice([None, None, gen_pair(rng, h, w)]),
                             "chunks": gen_chunks(rng, h, w) if rng.random() < 0.25 else None, "dtype": None,
                             "cache": rng.random() < 0.25, "mutate": mut})
            elif j < 0.9:
                hist.append({"op": "get_lonlat", "row": rng.randint(-h, h - 1), "col": rng.randint(-w, w - 1)})
            else:
                hist.append({"op": "colrow2lonlat", "row": rng.randint(0, h - 1), "col": rng.randint(0, w - 1)})
        hists.append(hist)
    spec["histories"] = hists
    spec["meta"]["hist_exact"] = h * w <= 64
    # --- DERIVED objects: crops, strided slices and copies of an area that already holds lon/lats (cache=True or lons=/lats=)
    if 4 <= h * w <= 900 and h >= 2 and w >= 2:
        def gsl(n):
            st = rng.choice([None, 1, 2, 2, 3])
            a_ = rng.randint(0, max(0, n - 2))
            b_ = rng.randint(min(n, a_ + (st or 1) + 1), n) if a_ + (st or 1) + 1 <= n else n
            return [rng.choice([None, a_]) if a_ == 0 else a_, rng.choice([None, b_]) if b_ == n else b_, st]
        scen = []
        for _ in range(2):
            chain = [["getitem", gsl(h), gsl(w)]]
            j = rng.random()
            if j < 0.25:
                chain.append(["copy"])
            elif j < 0.45:
                chain = [["copy"]] + chain
            elif j < 0.6:
                chain += [["cache"], ["getitem", [None, None, rng.choice([None, 2])], [None, None, rng.choice([None, 2])]]]
            scen.append({"prime": rng.choice(["cache", "cache", "ctor", "ctor", "none"]), "chain": chain})
        spec["derived"] = scen
    # --- several lazy results in ONE dask.compute: this area and a twin with the same shape and (bitwise) the same pixel sizes
    #     but another origin (a neighbouring tile of the same grid); same chunks, same dtype
    if h * w <= 900:
        fx0, fy0, fx1, fy1 = ext
        psx, psy = (fx1 - fx0) / float(w), (fy1 - fy0) / float(h)
        twin, same = None, False
        for sx, sy in [(fx1 - fx0, 0.0), (0.0, fy1 - fy0), (fx1 - fx0, fy1 - fy0), (2 * (fx1 - fx0), 0.0), (-(fx1 - fx0), 0.0), (3 * psx, -2 * psy)]:
            cand = [fx0 + sx, fy0 + sy, fx1 + sx, fy1 + sy]
            if not all(math.isfinite(v) for v in cand) or cand[0] == cand[2] or cand[1] == cand[3]:
                continue
            if (cand[2] - cand[0]) / float(w) == psx and (cand[3] - cand[1]) / float(h) == psy and cand != ext:
                twin, same = cand, True
                break
            twin = twin or cand
        if twin is not None:
            spec["joint"] = {"twin_extent": twin, "chunks": gen_chunks(rng, h, w)}
            spec["meta"]["joint_same_pixel_size"] = same
    # --- points in projection coordinates: built from exact fractional-index targets
    x0, y0, x1, y1 = [Fr(v) for v in ext]
    dx, dy = (x1 - x0) / w, (y1 - y0) / h
    tx, ty = frac_targets(rng, w), frac_targets(rng, h)
    rng.shuffle(tx)
    rng.shuffle(ty)
    pts, kinds = [], []
    for (kx, vx), (ky, vy) in list(zip(tx, ty)) + [(rng.choice(tx), rng.choice(ty)) for _ in range(6)]:
        x = float(x0 + (vx + Fr(1, 2)) * dx)
        y = float(y1 - (vy + Fr(1, 2)) * dy)
        j = rng.random()
        if j < 0.2:
            x = nextafter(x, rng.choice([-math.inf, math.inf]))
        elif j < 0.4:
            y = nextafter(y, rng.choice([-math.inf, math.inf]))
        pts.append([x, y])
        kinds.append((kx, ky))
    # malformed stream
    mal = [[math.nan, float(y1)], [float(x0), math.nan], [math.inf, float(y1)], [float(x0), -math.inf], [1e30, -1e30]]
    for m in rng.sample(mal, 2):
        pts.append(m)
        kinds.append(("malformed", "malformed"))
    spec["pts_proj"] = pts
    spec["meta"]["pt_kinds"] = kinds
    spec["n_scalar"] = 12 if idx % 3 == 0 else 5
    spec["pts_arr"] = [[float(vx), float(vy)] for (_, vx), (_, vy) in zip(tx[:8], ty[:8])] + \
                      [[rng.uniform(-2, w + 2), rng.uniform(-2, h + 2)] for _ in range(4)]
    # --- pixels and lon/lat points (lon/lat computed here with pyproj from the exact canonical coordinates)
    pix = [[rng.randint(0, h - 1), rng.randint(0, w - 1)] for _ in range(6)] + [[0, 0], [h - 1, w - 1]]
    spec["pix"] = pix
    T, P, R, cls = routes(crs_def)
    spec["meta"]["crs_class"] = cls
    pl, plk = [], []
    for (r_, c_) in pix:
        xc = float(x0 + (Fr(c_) + Fr(1, 2)) * dx)
        yc = float(y1 - (Fr(r_) + Fr(1, 2)) * dy)
        lo, la = T.transform(xc, yc, direction=INV)
        pl.append([float(lo), float(la)])
        plk.append(["pixel_T", r_, c_])
    for i in range(min(10, len(pts) - 2)):
        lo, la = P(pts[i][0], pts[i][1], inverse=True)
        pl.append([float(lo), float(la)])
        plk.append(["point_P", i])
    pl += [[1e30, 10.0], [10.0, 95.0], [math.nan, 0.0]]
    plk += [["malformed"], ["malformed"], ["malformed"]]
    spec["pts_lonlat"] = pl
    spec["meta"]["ll_kinds"] = plk
    return spec


# ------------------------------------------------------------------------------------------------ property oracle
class AreaOracle:
    """Exact canonical map of the property text, from the extent, width and height alone."""

    def __init__(self, spec):
        self.spec = spec
        self.w, self.h = spec["w"], spec["h"]
        self.x0, self.y0, self.x1, self.y1 = [Fr(v) for v in spec["extent"]]
        self.dx = (self.x1 - self.x0) / self.w
        self.dy = (self.y1 - self.y0) / self.h
        self.mx = max(abs(float(self.x0)), abs(float(self.x1)), 1e-300)
        self.my = max(abs(float(self.y0)), abs(float(self.y1)), 1e-300)

    def X(self, c):
        return self.x0 + (Fr(c) + Fr(1, 2)) * self.dx

    def Y(self, r):
        return self.y1 - (Fr(r) + Fr(1, 2)) * self.dy

    def col_of(self, x):      # exact fractional column of a finite projection x
        return (Fr(x) - self.x0) / self.dx - Fr(1, 2)

    def row_of(self, y):
        return (self.y1 - Fr(y)) / self.dy - Fr(1, 2)

    def tolx(self, u=U64):
        return 8 * u * self.mx

    def toly(self, u=U64):
        return 8 * u * self.my

    def index_slack(self, axis, v):
        """rounding slack of the fractional index, in pixels: a few ulp of the coordinates over the pixel size"""
        if axis == 0:
            return 8 * U64 * max(self.mx, abs(v)) / abs(float(self.dx)) + 1e-12
        return 8 * U64 * max(self.my, abs(v)) / abs(float(self.dy)) + 1e-12


def finite(x):
    return isinstance(x, (int, float)) and math.isfinite(x)


def check_axis_lookup(n, v_exact, slack, data, mask):
    """Property text for one axis. v_exact: exact fractional index (Fraction) of the point. Returns None or a message."""
    lo, hi = Fr(-1, 2) - EPS_FR, Fr(n) - Fr(1, 2) + EPS_FR
    s = Fr(slack)
    if mask:
        if lo + s <= v_exact <= hi - s:
            return "masked although the point is within the extent (+tolerance): fractional index %.17g" % float(v_exact)
        return None
    if v_exact < lo - s or v_exact > hi + s:
        return "not masked although the point is %.6g pixels outside the extent" % float(max(lo - v_exact, v_exact - hi) + EPS_FR)
    if not 0 <= data <= n - 1:
        return "index %d is not a valid index of an axis of length %d" % (data, n)
    tlo = EPS_FR if data == 0 else 0
    thi = EPS_FR if data == n - 1 else 0
    if not (data - Fr(1, 2) - tlo - s <= v_exact <= data + Fr(1, 2) + thi + s):
        return "index %d does not contain the point: exact fractional index %.17g" % (data, float(v_exact))
    return None


class Eval:
    """Evaluate one area's observations: property oracle (failures) + Coq case text (correspondence)."""

    def __init__(self, ctx, spec, obs, coq):
        self.ctx, self.spec, self.obs, self.coq = ctx, spec, obs, coq
        self.meta = spec["meta"]
        self.o = AreaOracle(spec)
        self.name = self.meta["crs_name"]
        self.cls = self.meta.get("crs_class", "plain")
        self.T, self.P, self.R, _ = routes(spec["crs"])
        self.acc = self.meta.get("proj_acc", 1e-5)
        self.seen = set()
        self.coq32 = coq.setdefault("coords32", [])
        self.coq_imp = coq.setdefault("history_imp", [])

    # -- bookkeeping
    def smp(self, kind_no, d):
        """evidence samples: each kind of case is sampled from different areas"""
        return d if int(self.meta.get("idx", 0)) % 5 == kind_no else None

    def fail(self, key, what, extra=None):
        if key in self.seen:
            return
        self.seen.add(key)
        sp = {k: v for k, v in self.spec.items()}
        self.ctx.add_failure(key, "%s [area: crs=%s extent=%r shape=(%d,%d)]" % (what, self.name, self.spec["extent"], self.spec["h"], self.spec["w"]),
                             {"spec": sp, "detail": extra})

    def ll_key(self, accessor, proj_family):
        if self.cls == "bound" and proj_family:
            return "C01.H_same.bound_crs"
        if self.cls == "derived_geographic":
            return "C01.lonlat.derived_geographic_crs"
        return "C01.lonlat." + accessor

    def area_lit(self):
        e = self.spec["extent"]
        return "(mk_area %s %s %s %s %d %d)" % (fhex(e[0]), fhex(e[1]), fhex(e[2]), fhex(e[3]), self.spec["w"], self.spec["h"])

    # -- coordinates
    def check_vec(self, xs, ys, what, u=U64):
        o = self.o
        if len(xs) != o.w or len(ys) != o.h:
            self.fail("C01.vectors.shape", "%s has lengths (%d,%d), expected (%d,%d)" % (what, len(xs), len(ys), o.w, o.h))
            return False
        for c, x in enumerate(xs):
            if not finite(x) or abs(Fr(x) - o.X(c)) > Fr(o.tolx(u)):
                self.fail("C01.vectors.x", "%s: x[%d]=%r but xmin+(c+1/2)dx=%r" % (what, c, x, float(o.X(c))))
                return False
        for r, y in enumerate(ys):
            if not finite(y) or abs(Fr(y) - o.Y(r)) > Fr(o.toly(u)):
                self.fail("C01.vectors.y", "%s: y[%d]=%r but ymax-(r+1/2)dy=%r" % (what, r, y, float(o.Y(r))))
                return False
        return True

    def check_grid(self, X, Y, rows, cols, what, key, u=U64, sl=None):
        """X, Y: the driver's records of the sliced 2-D result; rows/cols: the selected indices."""
        o = self.o
        want = (len(rows), len(cols))
        ws = want_shape(sl, rows, cols)
        if X["shape"] != ws or Y["shape"] != ws:
            int_only = has_int(sl) and X["shape"] == Y["shape"] and [d for d in X["shape"] if d != 1] == [d for d in ws if d != 1]
            self.fail(INT_KEY if int_only else key + ".shape", "%s returns shape %s, expected %s%s" % (
                what, X["shape"], ws, " (an integer index drops its axis, as for the dask / cached / plain-array paths)" if int_only else ""))
            if not int_only:
                return None     # otherwise only length-1 axes differ: the values are still checked below
        Xa = np.asarray(X["data"], dtype=float).reshape(want)
        Ya = np.asarray(Y["data"], dtype=float).reshape(want)
        for i, r in enumerate(rows):
            for j, c in enumerate(cols):
                x, y = float(Xa[i, j]), float(Ya[i, j])
                if not (math.isfinite(x) and abs(Fr(x) - o.X(c)) <= Fr(o.tolx(u))):
                    self.fail(key + ".x", "%s: x[%d][%d]=%r, pixel (row %d, col %d) has x=%r" % (what, i, j, x, r, c, float(o.X(c))))
                    return None
                if not (math.isfinite(y) and abs(Fr(y) - o.Y(r)) <= Fr(o.toly(u))):
                    self.fail(key + ".y", "%s: y[%d][%d]=%r, pixel (row %d, col %d) has y=%r" % (what, i, j, y, r, c, float(o.Y(r))))
                    return None
        return Xa, Ya

    def samples(self, nr, nc):
        rng = self.ctx.rng
        if nr * nc == 0:
            return []
        if nr * nc <= 16:
            return [(i, j) for i in range(nr) for j in range(nc)]
        s = {(0, 0), (nr - 1, nc - 1), (0, nc - 1), (nr - 1, 0)}
        for _ in range(14):
            s.add((rng.randrange(nr), rng.randrange(nc)))
        return sorted(s)

    def rows_cols(self, sl):
        h, w = self.spec["h"], self.spec["w"]
        if sl is None:
            return list(range(h)), list(range(w))
        if sl[0] == "single":
            return sel(h, sl[1]), list(range(w))
        return sel(h, sl[1]), sel(w, sl[2])

    def run(self):
        ctx, spec, obs, o = self.ctx, self.spec, self.obs, self.o
        h, w = spec["h"], spec["w"]
        A = self.area_lit()
        nontriv = False
        if "ctor" in obs:
            self.fail("C01.constructor", "AreaDefinition(...) raised %s" % obs["ctor"])
            return
        # ---------------- attributes (pixel sizes and upper-left pixel centre)
        at = obs["attrs"]
        if abs(Fr(at["pixel_size_x"]) - o.dx) > abs(o.dx) * Fr(4 * U64) or abs(Fr(at["pixel_size_y"]) - o.dy) > abs(o.dy) * Fr(4 * U64):
            self.fail("C01.init.pixel_size", "pixel_size=(%r,%r), expected (%r,%r)" % (at["pixel_size_x"], at["pixel_size_y"], float(o.dx), float(o.dy)))
        if abs(Fr(at["pixel_upper_left"][0]) - o.X(0)) > Fr(o.tolx()) or abs(Fr(at["pixel_upper_left"][1]) - o.Y(0)) > Fr(o.toly()):
            self.fail("C01.init.pixel_upper_left", "pixel_upper_left=%r, expected (%r,%r)" % (at["pixel_upper_left"], float(o.X(0)), float(o.Y(0))))
        if at["shape"] != [h, w]:
            self.fail("C01.init.shape", "shape=%r" % (at["shape"],))
        self.coq["attrs"].append("(%s, [%s])" % (A, "; ".join(fhex(v) for v in (
            at["pixel_size_x"], at["pixel_size_y"], at["pixel_upper_left"][0], at["pixel_upper_left"][1], at["pixel_offset_x"], at["pixel_offset_y"]))))
        # ---------------- vectors
        v = obs["vec"]
        if isinstance(v, dict):
            self.fail("C01.vectors.error", "get_proj_vectors() raised %s" % v)
            return
        xs, ys = v[0]["data"], v[1]["data"]
        ok = self.check_vec(xs, ys, "get_proj_vectors()")
        px, py = obs["vec_prop"][0]["data"], obs["vec_prop"][1]["data"]
        if not (same_list(px, xs) and same_list(py, ys)):
            self.fail("C01.vectors.projection_xy_coords", "projection_x_coords/projection_y_coords differ from get_proj_vectors()")
        if ok:
            self.coq["vectors"].append("(%s, [%s], [%s])" % (A, "; ".join(fhex(x) for x in xs), "; ".join(fhex(y) for y in ys)))
        for rq, res in zip(spec.get("vec_requests", []), obs["vec_requests"]):
            ctx.count("vec_request_%s" % ("dask" if rq.get("chunks") is not None else "numpy") + ("_f32" if rq.get("dtype") else ""))
            if isinstance(res, dict):
                self.fail("C01.vectors.error", "get_proj_vectors(%r) raised %s" % (rq, res))
                continue
            f32 = rq.get("dtype") == "float32"
            if f32:
                if res[0]["dtype"] != "float32":
                    self.fail("C01.vectors.dtype", "get_proj_vectors(dtype=float32) returns %s" % res[0]["dtype"])
                if self.check_vec(res[0]["data"], res[1]["data"], "get_proj_vectors(%r)" % rq, U32) and rq.get("chunks") is None:
                    ctx.count("float32_bit_exact_vectors")
                    self.coq32.append("(%s, %s, %s, [%s], [%s])" % (A, zlist(range(h)), zlist(range(w)),
                                                                    "; ".join(fhex(v) for v in res[0]["data"]), "; ".join(fhex(v) for v in res[1]["data"])))
            elif not (same_list(res[0]["data"], xs) and same_list(res[1]["data"], ys)):
                # float64 dask vectors: the property allows rounding differences only; bitwise equality is what the model predicts
                if self.check_vec(res[0]["data"], res[1]["data"], "get_proj_vectors(%r)" % rq):
                    self.ctx.broken.append(("correspondence:vectors_dask", "get_proj_vectors(%r) differs bitwise from the numpy vectors" % rq))
        # ---------------- 2-D coordinates
        for rq, res in zip(spec["coords"], obs["coords"]):
            kind = ("dask" if rq.get("chunks") is not None else "numpy") + ("_f32" if rq.get("dtype") else "") + ("_sliced" if rq.get("slice") else "")
            ctx.count("coords_" + kind)
            what = "get_proj_coords(data_slice=%r, chunks=%r, dtype=%r)" % (rq.get("slice"), rq.get("chunks"), rq.get("dtype"))
            if "error" in res:
                self.fail("C01.coords.error", "%s raised %s" % (what, res))
                continue
            rows, cols = self.rows_cols(rq.get("slice"))
            X, Y = res["xy"]
            ctx.case(("coords", self.spec["crs"], tuple(bits(v) for v in self.spec["extent"]), h, w, repr(rq)),
                     nontrivial=rq.get("slice") is not None or rq.get("chunks") is not None,
                     sample=self.smp(1, {"get_proj_coords": {"data_slice": rq.get("slice"), "chunks": rq.get("chunks"), "dtype": rq.get("dtype"), "shape": [h, w]},
                             "impl_shape": X["shape"], "impl_norm_chunks": res.get("norm_chunks")}))
            is_dask = rq.get("chunks") is not None
            if (X["kind"] == "dask") != is_dask:
                self.fail("C01.coords.kind", "%s returns a %s array" % (what, X["kind"]))
            f32 = rq.get("dtype") == "float32"
            if X["dtype"] != ("float32" if f32 else "float64"):
                self.fail("C01.coords.dtype", "%s returns dtype %s" % (what, X["dtype"]))
            g = self.check_grid(X, Y, rows, cols, what, "C01.coords." + ("dask" if is_dask else "numpy"), U32 if f32 else U64, rq.get("slice"))
            if g is None:
                continue
            Xa, Ya = g
            if f32:
                # float32: bit-exact through the marginals; the arrays must be bitwise the mesh of them
                if len(rows) and len(cols):
                    ctx.count("float32_bit_exact_coords")
                    if not all(same(Xa[i, j], Xa[0, j]) and same(Ya[i, j], Ya[i, 0]) for i in range(len(rows)) for j in range(len(cols))):
                        self.ctx.broken.append(("correspondence:coords_f32_mesh", "%s is not bitwise a mesh of its first row / first column" % what))
                    self.coq32.append("(%s, %s, %s, [%s], [%s])" % (A, zlist(rows), zlist(cols), "; ".join(fhex(v) for v in Xa[0, :]),
                                                                    "; ".join(fhex(v) for v in Ya[:, 0])))
                continue
            smp = self.samples(len(rows), len(cols))
            stxt = "[" + "; ".join("(%d, %d, %s, %s)" % (i, j, fhex(Xa[i, j]), fhex(Ya[i, j])) for i, j in smp) + "]"
            if is_dask:
                nch = res["norm_chunks"]
                if sum(nch[0]) != h or sum(nch[1]) != w:
                    self.fail("C01.coords.dask.chunks", "%s: normalised chunks %r do not sum to the shape" % (what, nch))
                    continue
                nontriv = nontriv or len(nch[0]) * len(nch[1]) > 1
                ctx.count("dask_blocks_%s" % ("1" if len(nch[0]) * len(nch[1]) == 1 else "2-9" if len(nch[0]) * len(nch[1]) < 10 else "10+"))
                self.coq["coords_dask"].append("(%s, %s, %s, %s, %s, %s)" % (A, zlist(nch[0]), zlist(nch[1]), zlist(rows), zlist(cols), stxt))
            else:
                self.coq["coords_numpy"].append("(%s, %s, %s, %s)" % (A, zlist(rows), zlist(cols), stxt))
            # the 2-D accessors must be the mesh of the 1-D vectors, bit for bit (accessors agree)
            if ok and len(rows) and len(cols):
                if not all(same(Xa[i, j], xs[cols[j]]) and same(Ya[i, j], ys[rows[i]]) for i in range(len(rows)) for j in range(len(cols))):
                    self.ctx.broken.append(("correspondence:coords_vs_vectors", "%s is not bitwise the mesh of get_proj_vectors()" % what))
        # ---------------- affine conversions
        pts = spec["pts_proj"]
        kinds = self.meta["pt_kinds"]
        r = obs.get("arr_of_proj")
        cf = rf = None
        if isinstance(r, dict):
            self.fail("C01.arr_of_proj.error", "get_array_coordinates_from_projection_coordinates raised %s" % r)
        else:
            cf, rf = r[0]["data"], r[1]["data"]
            L = []
            for (x, y), c_, r_, kd in zip(pts, cf, rf, kinds):
                if kd[0] != "malformed":
                    if not (finite(c_) and abs(Fr(c_) - o.col_of(x)) <= Fr(o.index_slack(0, x))):
                        self.fail("C01.arr_of_proj.x", "column of x=%r is %r, exact (x-xmin)/dx-1/2 = %.17g" % (x, c_, float(o.col_of(x))))
                    if not (finite(r_) and abs(Fr(r_) - o.row_of(y)) <= Fr(o.index_slack(1, y))):
                        self.fail("C01.arr_of_proj.y", "row of y=%r is %r, exact (ymax-y)/dy-1/2 = %.17g" % (y, r_, float(o.row_of(y))))
                L.append("(%s, %s, %s, %s)" % (fhex(x), fhex(y), fhex(c_), fhex(r_)))
            self.coq["arr_of_proj"].append("(%s, [%s])" % (A, "; ".join(L)))
            for (x, y), c_, r_, sc in zip(pts, cf, rf, obs.get("arr_of_proj_scalar", [])):
                if "error" in sc or not (same(sc["value"][0], c_) and same(sc["value"][1], r_)) or sc["types"] != ["float", "float"]:
                    self.fail("C01.arr_of_proj.scalar", "scalar call at (%r,%r) gives %s, array call gives (%r,%r)" % (x, y, sc, c_, r_))
        r = obs.get("proj_of_arr")
        if isinstance(r, dict):
            self.fail("C01.proj_of_arr.error", "get_projection_coordinates_from_array_coordinates raised %s" % r)
        elif r:
            L = []
            for (c_, r_), x, y in zip(spec["pts_arr"], r[0]["data"], r[1]["data"]):
                if not (finite(x) and abs(Fr(x) - o.X(Fr(c_))) <= Fr(o.tolx() * (1 + abs(c_) / w))):
                    self.fail("C01.proj_of_arr.x", "x of column %r is %r, exact %r" % (c_, x, float(o.X(Fr(c_)))))
                if not (finite(y) and abs(Fr(y) - o.Y(Fr(r_))) <= Fr(o.toly() * (1 + abs(r_) / h))):
                    self.fail("C01.proj_of_arr.y", "y of row %r is %r, exact %r" % (r_, y, float(o.Y(Fr(r_)))))
                L.append("(%s, %s, %s, %s)" % (fhex(c_), fhex(r_), fhex(x), fhex(y)))
            self.coq["proj_of_arr"].append("(%s, [%s])" % (A, "; ".join(L)))
        # ---------------- integer lookups on projection coordinates
        r = obs.get("idx_of_proj")
        if isinstance(r, dict):
            self.fail("C01.index.error", "get_array_indices_from_projection_coordinates raised %s" % r)
        elif r:
            L = []
            for i, ((x, y), kd) in enumerate(zip(pts, kinds)):
                cd, cm, rd, rm = r[0]["data"][i], r[0]["mask"][i], r[1]["data"][i], r[1]["mask"][i]
                lab = "idx_" + kd[0]
                ctx.count(lab)
                if kd[0] != "malformed":
                    nontriv = nontriv or kd[0].startswith(("band", "border", "edge"))
                    m = check_axis_lookup(w, o.col_of(x), o.index_slack(0, x), cd, cm)
                    if m:
                        self.fail("C01.index.col." + ("masked" if cm else "unmasked"), "get_array_indices_from_projection_coordinates x=%r (%s): %s" % (x, kd[0], m))
                    m = check_axis_lookup(h, o.row_of(y), o.index_slack(1, y), rd, rm)
                    if m:
                        self.fail("C01.index.row." + ("masked" if rm else "unmasked"), "get_array_indices_from_projection_coordinates y=%r (%s): %s" % (y, kd[1], m))
                else:
                    if (not math.isfinite(x)) and not cm or (not math.isfinite(y)) and not rm:
                        self.fail("C01.index.nonfinite", "non-finite coordinate (%r,%r) is not masked: col mask %s, row mask %s" % (x, y, cm, rm))
                ctx.case(("pt", self.spec["crs"], tuple(bits(v) for v in self.spec["extent"]), h, w, bits(x), bits(y)),
                         nontrivial=kd[0].startswith(("band", "border", "edge")) or kd[1].startswith(("band", "border", "edge")),
                         sample=self.smp(2, {"lookup": {"x": x, "y": y, "kind": list(kd), "shape": [h, w], "extent": self.spec["extent"]},
                                 "impl": {"col": cd, "col_masked": cm, "row": rd, "row_masked": rm}}))
                L.append("(%s, %s, %d, %s, %d, %s)" % (fhex(x), fhex(y), cd, "true" if cm else "false", rd, "true" if rm else "false"))
            self.coq["index_array"].append("(%s, [%s])" % (A, "; ".join(L)))
            L = []
            for i, sc in enumerate(obs.get("idx_of_proj_scalar", [])):
                x, y = pts[i]
                cd, cm, rd, rm = r[0]["data"][i], r[0]["mask"][i], r[1]["data"][i], r[1]["mask"][i]
                if "error" in sc:
                    ctx.count("idx_scalar_rejected")
                    if sc["error"] != "ValueError":
                        self.fail("C01.index.scalar.error_type", "scalar lookup at (%r,%r) raised %s" % (x, y, sc))
                    if not (cm or rm) and kinds[i][0] != "malformed":
                        self.fail("C01.index.scalar", "scalar lookup at (%r,%r) raised ValueError, the array lookup does not mask the point" % (x, y))
                    L.append("(%s, %s, None)" % (fhex(x), fhex(y)))
                else:
                    ctx.count("idx_scalar_accepted")
                    if (cm or rm) or sc["value"] != [cd, rd] or sc["types"] != ["int", "int"]:
                        if not (x != x or y != y):
                            self.fail("C01.index.scalar", "scalar lookup at (%r,%r) returned %s, the array lookup gives col %d%s row %d%s" % (
                                x, y, sc, cd, " (masked)" if cm else "", rd, " (masked)" if rm else ""))
                    if x != x or y != y:
                        continue        # the integer under a NaN is platform-defined
                    L.append("(%s, %s, Some (%d, %d))" % (fhex(x), fhex(y), sc["value"][0], sc["value"][1]))
            self.coq["index_scalar"].append("(%s, [%s])" % (A, "; ".join(L)))
        # ---------------- lon/lat
        self.lonlat(A, xs, ys, ok)
        self.histories(A, xs, ys, ok)
        self.aliases()
        self.joint(A)
        self.derived()
        ctx.case(("area", spec["crs"], tuple(bits(v) for v in spec["extent"]), h, w), nontrivial=nontriv,
                 sample=self.smp(0, {"area": {"crs": self.name, "extent": spec["extent"], "shape": [h, w], "mode": self.meta["mode"], "flip": self.meta["flip"]},
                         "impl_upper_left_pixel": at["pixel_upper_left"]}))
        ctx.count("crs_" + self.name)
        ctx.count("extent_" + self.meta["mode"])
        ctx.count("flip_%s" % self.meta["flip"])
        ctx.count("shape_" + ("1xN" if min(h, w) == 1 else "small" if max(h, w) <= 12 else "medium" if max(h, w) <= 30 else "large"))

    # -- lon/lat accessors
    def ll_close(self, lon, lat, rlon, rlat, x, y, tol_px=1e-6):
        """impl lon/lat vs reference lon/lat of the canonical point (x, y). True / False."""
        fi, fr = math.isfinite(lon) and math.isfinite(lat), math.isfinite(rlon) and math.isfinite(rlat)
        if not fi and not fr:
            return True
        if fi and fr and float(ang_deg(lon, lat, rlon, rlat)) <= 1e-9:
            return True
        # ill-conditioned inverse (pole, disk edge): accept when the impl's lon/lat projects back onto the canonical point
        if fi:
            bx, by = self.R.transform(lon, lat)
            if math.isfinite(bx) and math.isfinite(by) and abs(bx - x) <= tol_px * abs(float(self.o.dx)) + 4 * U64 * abs(x) + self.acc \
                    and abs(by - y) <= tol_px * abs(float(self.o.dy)) + 4 * U64 * abs(y) + self.acc:
                return True
        if fi != fr:
            # domain edge: finiteness may flip within an ulp of the coordinate
            for ddx in (-1, 0, 1):
                for ddy in (-1, 0, 1):
                    xx = nextafter(x, math.inf * ddx) if ddx else x
                    yy = nextafter(y, math.inf * ddy) if ddy else y
                    a, b = self.R.transform(xx, yy, direction=INV)
                    if (math.isfinite(a) and math.isfinite(b)) == fi:
                        return True
        return False

    def derived(self):
        """Objects derived (crop, strided slice, copy) from an area that already holds lon/lats: every accessor of the derived
        object against ITS OWN canonical map (from the extent and shape it reports)."""
        ctx, spec, obs = self.ctx, self.spec, self.obs
        for sc, res in zip(spec.get("derived", []), obs.get("derived", [])):
            strided = any(st[0] == "getitem" and ((st[1][2] or 1) > 1 or (st[2][2] or 1) > 1) for st in sc["chain"])
            label = "prime_%s_%s" % (sc["prime"], "strided" if strided else "crop")
            ctx.count("derived_" + label)
            what0 = "area%s after %s" % ("".join("[%s, %s]" % (self.sl_str(st[1]), self.sl_str(st[2])) if st[0] == "getitem" else
                                                 (".copy()" if st[0] == "copy" else "{get_lonlats(cache=True)}") for st in sc["chain"]),
                                         {"cache": "get_lonlats(cache=True) on the parent", "ctor": "constructing the parent with lons=/lats=",
                                          "none": "no lon/lats on the parent"}[sc["prime"]])
            if "derive_error" in res:
                ctx.count("derived_raised")          # a loud error is acceptable, a wrong value is not
                continue
            h, w = res["shape"]
            ctx.case(("derived", spec["crs"], tuple(bits(v) for v in spec["extent"]), spec["h"], spec["w"], repr(sc)),
                     nontrivial=sc["prime"] != "none" and strided,
                     sample=self.smp(3, {"derived": {"parent_extent": spec["extent"], "parent_shape": [spec["h"], spec["w"]], "prime": sc["prime"],
                                                     "chain": sc["chain"]}, "impl_extent": res["extent"], "impl_shape": res["shape"]}))
            if h < 1 or w < 1:
                continue
            dspec = dict(spec, extent=res["extent"], h=h, w=w, meta=self.meta)
            sub = Eval(ctx, dspec, {}, {k: [] for k in list(CHK) + ["coords32", "history_imp"]})
            o = sub.o
            cx = np.array([float(o.X(c)) for c in range(w)])
            cy = np.array([float(o.Y(r)) for r in range(h)])
            CX, CY = np.meshgrid(cx, cy)
            RLON, RLAT = self.R.transform(CX, CY, direction=INV)
            dg = self.cls == "derived_geographic"

            def fail(acc, msg, proj_family=False):
                key = "C01.lonlat.derived_geographic_crs" if (dg and acc != "get_proj_coords") else "C01.derived." + acc
                self.fail(key, "%s (its extent %r, shape (%d,%d)): %s" % (what0, res["extent"], h, w, msg), {"scenario": sc})

            def grid(name, acc, rows, cols):
                r_ = res.get(name)
                if not isinstance(r_, list):
                    fail(acc, "%s raised %s" % (name, r_))
                    return
                want = [len(rows), len(cols)]
                if r_[0]["shape"] != want or r_[1]["shape"] != want:
                    fail(acc, "%s has shape %s, the derived area selects %s" % (name, r_[0]["shape"], want))
                    return
                lo = np.asarray(r_[0]["data"], dtype=float).reshape(want)
                la = np.asarray(r_[1]["data"], dtype=float).reshape(want)
                for i, rr in enumerate(rows):
                    for j, cc in enumerate(cols):
                        if not sub.ll_close(float(lo[i, j]), float(la[i, j]), float(RLON[rr, cc]), float(RLAT[rr, cc]), float(cx[cc]), float(cy[rr])):
                            fail(acc, "%s[%d][%d] = (%.12g, %.12g) but pixel (row %d, col %d) of the derived area has geodetic lon/lat (%.12g, %.12g)" % (
                                name, i, j, lo[i, j], la[i, j], rr, cc, RLON[rr, cc], RLAT[rr, cc]))
                            return
            grid("ll_whole", "get_lonlats", list(range(h)), list(range(w)))
            grid("ll_slice", "get_lonlats", list(range(h))[1:], list(range(w))[:-1])
            grid("ll_dask", "get_lonlats_dask", list(range(h)), list(range(w)))
            xy = res.get("xy")
            if isinstance(xy, list):
                g = sub.check_grid(xy[0], xy[1], list(range(h)), list(range(w)), "%s: get_proj_coords()" % what0, "C01.derived.get_proj_coords")
                if g is not None:
                    e = res["extent"]
                    smp = self.samples(h, w)
                    self.coq["coords_numpy"].append("((mk_area %s %s %s %s %d %d), %s, %s, [%s])" % (
                        fhex(e[0]), fhex(e[1]), fhex(e[2]), fhex(e[3]), w, h, zlist(range(h)), zlist(range(w)),
                        "; ".join("(%d, %d, %s, %s)" % (i, j, fhex(g[0][i, j]), fhex(g[1][i, j])) for i, j in smp)))
            else:
                fail("get_proj_coords", "get_proj_coords() raised %s" % xy)
            for name, acc, (rr, cc) in (("lonlat_00", "get_lonlat", (0, 0)), ("lonlat_last", "get_lonlat", (h - 1, w - 1)),
                                        ("colrow_last", "colrow2lonlat", (h - 1, w - 1))):
                v = res.get(name)
                if not isinstance(v, list):
                    fail(acc, "%s raised %s" % (name, v))
                elif not sub.ll_close(float(v[0]), float(v[1]), float(RLON[rr, cc]), float(RLAT[rr, cc]), float(cx[cc]), float(cy[rr])):
                    fail(acc, "%s = (%.12g, %.12g) but pixel (row %d, col %d) of the derived area has geodetic lon/lat (%.12g, %.12g)" % (
                        name, v[0], v[1], rr, cc, RLON[rr, cc], RLAT[rr, cc]))
            # the parent still describes ITS grid after the caller overwrote what the derived object handed out
            pa = res.get("parent_ll_after")
            if isinstance(pa, list) and not dg:
                po = self.o
                pcx = np.array([float(po.X(c)) for c in range(spec["w"])])
                pcy = np.array([float(po.Y(r)) for r in range(spec["h"])])
                PX, PY = np.meshgrid(pcx, pcy)
                PLON, PLAT = self.R.transform(PX, PY, direction=INV)
                if pa[0]["shape"] != [spec["h"], spec["w"]]:
                    self.fail("C01.derived.parent_after_overwrite", "%s: the parent's get_lonlats() now has shape %s" % (what0, pa[0]["shape"]), {"scenario": sc})
                else:
                    lo = np.asarray(pa[0]["data"], dtype=float).reshape(spec["h"], spec["w"])
                    la = np.asarray(pa[1]["data"], dtype=float).reshape(spec["h"], spec["w"])
                    bad = [(i, j) for i in range(spec["h"]) for j in range(spec["w"])
                           if not self.ll_close(float(lo[i, j]), float(la[i, j]), float(PLON[i, j]), float(PLAT[i, j]), float(pcx[j]), float(pcy[i]))]
                    if bad:
                        i, j = bad[0]
                        self.fail("C01.derived.parent_after_overwrite", "%s, then the caller overwrote the derived object's get_lonlats() result in place: the PARENT's "
                                  "get_lonlats()[%d][%d] is (%.12g, %.12g), its pixel has (%.12g, %.12g)" % (what0, i, j, lo[i, j], la[i, j], PLON[i, j], PLAT[i, j]), {"scenario": sc})

    @staticmethod
    def sl_str(sl):
        return ":".join("" if v is None else str(v) for v in sl)

    def joint(self, A):
        """Lazy dask results of this area and of a twin (same shape, same pixel size, other origin) evaluated in ONE
        dask.compute: each must still be its own canonical map, and bitwise what the stand-alone evaluation gives."""
        ctx, spec, obs = self.ctx, self.spec, self.obs
        jt, res = spec.get("joint"), obs.get("joint")
        if not jt or res is None:
            return
        h, w = spec["h"], spec["w"]
        same_ps = bool(self.meta.get("joint_same_pixel_size"))
        ctx.count("joint_compute_" + ("same_pixel_size" if same_ps else "other_pixel_size"))
        what0 = "one dask.compute over get_proj_coords/get_lonlats(chunks=%r) of this area and of a twin with extent %r" % (jt["chunks"], jt["twin_extent"])
        ctx.case(("joint", spec["crs"], tuple(bits(v) for v in spec["extent"]), h, w, repr(jt)), nontrivial=same_ps,
                 sample=self.smp(1, {"joint_compute": {"extent": spec["extent"], "twin_extent": jt["twin_extent"], "shape": [h, w], "chunks": jt["chunks"],
                                                       "same_pixel_size": same_ps}, "impl_norm_chunks": res.get("norm_chunks")}))
        if "error" in res:
            self.fail("C01.coords.dask.joint_compute", "%s raised %s" % (what0, res))
            return
        nch = res["norm_chunks"][-2:]
        rows, cols = list(range(h)), list(range(w))
        tspec = dict(spec)
        tspec["extent"] = jt["twin_extent"]
        for who, sp_, xy, ll in (("this area", spec, res["area_xy"], res["area_ll"]), ("the twin", tspec, res["twin_xy"], res["twin_ll"])):
            sub = Eval(ctx, dict(sp_, meta=self.meta), {}, {k: [] for k in list(CHK) + ["coords32"]})
            sub.seen = set()
            g = sub.check_grid(xy[0], xy[1], rows, cols, "%s: coordinates of %s" % (what0, who), "C01.coords.dask.joint_compute")
            if g is None:
                for f_ in ctx.failures[-1:]:
                    f_.key = "C01.coords.dask.joint_compute"
                    f_.replay = {"spec": {k: v for k, v in spec.items()}, "detail": {"who": who}}
                continue
            Xa, Ya = g
            smp = self.samples(h, w)
            stxt = "[" + "; ".join("(%d, %d, %s, %s)" % (i, j, fhex(Xa[i, j]), fhex(Ya[i, j])) for i, j in smp) + "]"
            e = sp_["extent"]
            A_ = "(mk_area %s %s %s %s %d %d)" % (fhex(e[0]), fhex(e[1]), fhex(e[2]), fhex(e[3]), w, h)
            self.coq["coords_dask"].append("(%s, %s, %s, %s, %s, %s)" % (A_, zlist(nch[0]), zlist(nch[1]), zlist(rows), zlist(cols), stxt))
            # lon/lats against the reference geodetic inverse of that area's own canonical centres
            o_ = sub.o
            cx = np.array([float(o_.X(c)) for c in range(w)])
            cy = np.array([float(o_.Y(r)) for r in range(h)])
            CX, CY = np.meshgrid(cx, cy)
            RLON, RLAT = self.R.transform(CX, CY, direction=INV)
            lo = np.asarray(ll[0]["data"], dtype=float).reshape(h, w)
            la = np.asarray(ll[1]["data"], dtype=float).reshape(h, w)
            done = False
            for i in range(h):
                for j in range(w):
                    if not done and not sub.ll_close(float(lo[i, j]), float(la[i, j]), float(RLON[i, j]), float(RLAT[i, j]), float(cx[j]), float(cy[i])):
                        key = "C01.lonlat.derived_geographic_crs" if self.cls == "derived_geographic" else "C01.lonlat.dask.joint_compute"
                        self.fail(key, "%s: lon/lat of %s at pixel (row %d, col %d) is (%.12g, %.12g), its geodetic lon/lat is (%.12g, %.12g)" % (
                            what0, who, i, j, lo[i, j], la[i, j], RLON[i, j], RLAT[i, j]), {"who": who, "row": i, "col": j})
                        done = True

    def aliases(self):
        """Deprecated / alternative entry points must be the same accessors (bitwise the same results)."""
        obs = self.obs
        al = obs.get("aliases") or {}

        def same_arrays(a, b):
            return isinstance(a, list) and isinstance(b, list) and all(
                x["shape"] == y["shape"] and same_list(flat(x["data"]), flat(y["data"])) for x, y in zip(a, b))

        def same_masked(a, b):
            return isinstance(a, list) and isinstance(b, list) and all(
                x["mask"] == y["mask"] and all(p == q or m for p, q, m in zip(x["data"], y["data"], x["mask"])) for x, y in zip(a, b))
        pairs = [("get_proj_vectors_dask", obs.get("vec"), same_arrays),
                 ("get_proj_coords_dask", (obs["coords"][0] or {}).get("xy") if obs.get("coords") else None, same_arrays),
                 ("get_lonlats_dask", (obs["lonlats"][0] or {}).get("ll") if obs.get("lonlats") else None, same_arrays),
                 ("get_xy_from_proj_coords", obs.get("idx_of_proj"), same_masked),
                 ("get_xy_from_lonlat", obs.get("idx_of_lonlat"), same_masked)]
        for name, primary, eq in pairs:
            got = al.get(name)
            if got is None or not isinstance(primary, list):
                continue
            self.ctx.count("alias_" + name)
            if isinstance(got, dict) or not eq(got, primary):
                self.fail("C01.alias." + name, "%s() does not return what the accessor it stands for returns: %s" % (
                    name, got if isinstance(got, dict) else "values/shape/mask differ"))
            elif name.endswith("_dask") and got[0]["kind"] != "dask":
                self.fail("C01.alias." + name, "%s() returns a %s array" % (name, got[0]["kind"]))

    def histories(self, A, xs, ys, vec_ok):
        """After EVERY step of every call history on one object, the result must be the canonical map."""
        ctx, spec, obs, o = self.ctx, self.spec, self.obs, self.o
        h, w = spec["h"], spec["w"]
        if not spec.get("histories"):
            return
        T, P, R = self.T, self.P, self.R
        cx = np.array([float(o.X(c)) for c in range(w)])
        cy = np.array([float(o.Y(r)) for r in range(h)])
        CX, CY = np.meshgrid(cx, cy)
        RLON, RLAT = R.transform(CX, CY, direction=INV)
        exact = bool(self.meta.get("hist_exact")) and vec_ok
        tabT, tabP = {}, {}
        if exact:
            X2, Y2 = np.meshgrid(np.array(xs), np.array(ys))
            tl, ta = T.transform(X2, Y2, direction=INV)
            for i in range(h):
                for j in range(w):
                    tabT[(i, j)] = (xs[j], ys[i], float(tl[i, j]), float(ta[i, j]))
        for hist, steps in zip(spec["histories"], obs.get("histories", [])):
            ops_txt, obs_txt = [], []
            imp_calls, imp_obs, imp_ok = [], [], True     # the same history through the GENERATED get_lonlats (numpy path only)
            good = True
            cached_before = False
            cache_set = False          # self.lons is set (tracked as the model does)
            aliased_overwrite = False  # the caller overwrote arrays that are the cache or a view of it
            for k, (op, st) in enumerate(zip(hist, steps)):
                acc = op["op"]
                what = "step %d of history %s: %s" % (k + 1, [self.op_str(q) for q in hist[:k + 1]], self.op_str(op))
                ctx.count("history_" + acc + ("_cache" if op.get("cache") else ""))
                ctx.case(("hist", spec["crs"], tuple(bits(v) for v in spec["extent"]), h, w, repr(hist[:k + 1])),
                         nontrivial=k > 0 and any(q.get("cache") for q in hist[:k]),
                         sample=self.smp(4, {"history": [self.op_str(q) for q in hist[:k + 1]], "shape": [h, w], "crs": self.name,
                                 "impl": st.get("value") or (st.get("ll") or [{}])[0].get("shape") or st}))
                key = self.ll_key("history." + acc, acc == "colrow2lonlat") if self.cls == "derived_geographic" else "C01.lonlat.history." + acc
                if aliased_overwrite and acc in ("get_lonlats", "get_lonlat") and self.cls != "derived_geographic":
                    key = "C01.lonlat.history.cache_aliasing"
                if acc in ("get_proj_vectors", "projection_coords", "get_proj_coords"):
                    ckey = "C01.coords.history." + acc
                    if "error" in st:
                        self.fail(ckey, "%s raised %s" % (what, st), {"history": hist, "step": k})
                        break
                    if acc == "get_proj_coords":
                        rows, cols = self.rows_cols(op.get("slice"))
                        g = self.check_grid(st["xy"][0], st["xy"][1], rows, cols, what, ckey, U64, op.get("slice"))
                        if g is None or (vec_ok and len(rows) and len(cols) and not all(
                                same(g[0][i, j], xs[cols[j]]) and same(g[1][i, j], ys[rows[i]]) for i in range(len(rows)) for j in range(len(cols)))):
                            if g is not None:
                                self.ctx.broken.append(("correspondence:history_coords", "%s is not bitwise the mesh of the fresh vectors" % what))
                            break
                    else:
                        vx, vy = st["vec"][0]["data"], st["vec"][1]["data"]
                        bad = None
                        if len(vx) != w or len(vy) != h:
                            bad = "lengths (%d, %d)" % (len(vx), len(vy))
                        else:
                            for c_, x_ in enumerate(vx):
                                if not finite(x_) or abs(Fr(x_) - o.X(c_)) > Fr(o.tolx()):
                                    bad = "x[%d]=%r but xmin+(c+1/2)dx=%r" % (c_, x_, float(o.X(c_)))
                                    break
                            for r_, y_ in enumerate(vy):
                                if bad is None and (not finite(y_) or abs(Fr(y_) - o.Y(r_)) > Fr(o.toly())):
                                    bad = "y[%d]=%r but ymax-(r+1/2)dy=%r" % (r_, y_, float(o.Y(r_)))
                        if bad:
                            self.fail(ckey, "%s: %s" % (what, bad), {"history": hist, "step": k})
                            break
                        if vec_ok and not (same_list(vx, xs) and same_list(vy, ys)):
                            self.ctx.broken.append(("correspondence:history_vectors", "%s differs bitwise from the vectors of a fresh object" % what))
                            break
                    continue
                if "error" in st:
                    self.fail(INT_KEY if int_int_chunks(op, st) else key, "%s raised %s" % (what, st), {"history": hist, "step": k})
                    good = False
                    break
                if acc == "get_lonlats":
                    rows, cols = self.rows_cols(op.get("slice"))
                    LO, LA = st["ll"]
                    want = [len(rows), len(cols)]
                    ws = want_shape(op.get("slice"), rows, cols)
                    if LO["shape"] != ws or LA["shape"] != ws:
                        int_only = has_int(op.get("slice")) and LO["shape"] == LA["shape"] and [d for d in LO["shape"] if d != 1] == [d for d in ws if d != 1]
                        self.fail(INT_KEY if int_only else key, "%s returns shape %s, the selected grid has shape %s" % (what, LO["shape"], ws), {"history": hist, "step": k})
                        if not int_only:
                            good = False
                            break
                    lo = np.asarray(LO["data"], dtype=float).reshape(want)
                    la = np.asarray(LA["data"], dtype=float).reshape(want)
                    f32 = LO["dtype"] == "float32"
                else:
                    rows, cols = [range(h)[op["row"]]], [range(w)[op["col"]]]
                    lo = np.array([[st["value"][0]]])
                    la = np.array([[st["value"][1]]])
                    f32 = False
                for i, r_ in enumerate(rows):
                    for j, c_ in enumerate(cols):
                        fi = math.isfinite(lo[i, j]) and math.isfinite(la[i, j])
                        fr = math.isfinite(RLON[r_, c_]) and math.isfinite(RLAT[r_, c_])
                        if f32:
                            bad = fi and fr and float(ang_deg(lo[i, j], la[i, j], RLON[r_, c_], RLAT[r_, c_])) > 1e-4 and not self.ll_close(
                                float(lo[i, j]), float(la[i, j]), float(RLON[r_, c_]), float(RLAT[r_, c_]), float(cx[c_]), float(cy[r_]),
                                16 * U32 * max(o.mx / abs(float(o.dx)), o.my / abs(float(o.dy))) + 1e-3)
                        else:
                            bad = not self.ll_close(float(lo[i, j]), float(la[i, j]), float(RLON[r_, c_]), float(RLAT[r_, c_]), float(cx[c_]), float(cy[r_]))
                        if bad and good:
                            self.fail(key, "%s gives (%.12g, %.12g) at [%d][%d], i.e. for pixel (row %d, col %d) whose geodetic lon/lat is (%.12g, %.12g)" % (
                                what, lo[i, j], la[i, j], i, j, r_, c_, RLON[r_, c_], RLAT[r_, c_]),
                                {"history": hist, "step": k, "impl": [float(lo[i, j]), float(la[i, j])], "required": [float(RLON[r_, c_]), float(RLAT[r_, c_])]})
                            good = False
                if not good:
                    break
                if acc == "get_lonlats":
                    if not cache_set and op.get("cache") and op.get("chunks") is None and op.get("slice") is None:
                        cache_set = True
                    if cache_set and op.get("mutate") and st.get("mutated"):
                        aliased_overwrite = True
                        ctx.count("history_aliased_overwrite")
                if exact:     # copies are handed out: overwrites do not reach the object, the plain state machine applies
                    if acc == "get_lonlats":
                        sl = op.get("slice")
                        sl_txt = "None" if sl is None else "(Some (%s, %s))" % (zlist(rows), zlist(cols))
                        ch_txt = "None"
                        if op.get("chunks") is not None and not cached_before:
                            nch = self.norm_chunks(op["chunks"], h, w)
                            ch_txt = "(Some (%s, %s))" % (zlist(nch[0]), zlist(nch[1]))
                        ops_txt.append("OpLonlats %s %s %s" % (sl_txt, ch_txt, "true" if op.get("cache") else "false"))
                        if op.get("cache") and op.get("chunks") is None and sl is None:
                            cached_before = True
                    elif acc == "get_lonlat":
                        ops_txt.append("OpGetLonlat %d %d" % (rows[0], cols[0]))
                    else:
                        ops_txt.append("OpColrow %d %d" % (cols[0], rows[0]))
                        k_ = (bits(xs[cols[0]]), bits(ys[rows[0]]))
                        if k_ not in tabP:
                            pl_, pa_ = P(float(xs[cols[0]]), float(ys[rows[0]]), inverse=True)
                            tabP[k_] = (xs[cols[0]], ys[rows[0]], float(pl_), float(pa_))
                    obs_txt.append("[" + "; ".join("[" + "; ".join("(%s, %s)" % (fhex(lo[i, j]), fhex(la[i, j])) for j in range(lo.shape[1])) + "]"
                                                   for i in range(lo.shape[0])) + "]")
                    if acc == "get_lonlats" and op.get("chunks") is not None:
                        imp_ok = False
                    elif acc in ("get_lonlats", "get_lonlat"):
                        sl_i = "None" if (acc == "get_lonlats" and op.get("slice") is None) else "(Some (%s, %s))" % (zlist(rows), zlist(cols))
                        imp_calls.append("(%s, %s)" % (sl_i, "true" if op.get("cache") else "false"))

                        def arr(m):
                            return "[" + "; ".join("[" + "; ".join(fhex(m[i, j]) for j in range(m.shape[1])) + "]" for i in range(m.shape[0])) + "]"
                        imp_obs.append("(%s, %s)" % (arr(lo), arr(la)))
            if exact and good and ops_txt:
                def tab(t):
                    return "[" + "; ".join("((%s, %s), (%s, %s))" % tuple(fhex(v) for v in e) for e in t.values()) + "]"
                self.coq["history"].append("(%s, %s, %s, [%s], ([%s] : list (list (list (float * float)))))" % (
                    A, tab(tabT), tab(tabP), "; ".join(ops_txt), "; ".join(obs_txt)))
                if imp_ok and imp_calls:
                    ctx.count("history_through_generated_get_lonlats")
                    self.coq_imp.append("(%s, %s, ([%s] : list (option (list Z * list Z) * bool)), ([%s] : list (list (list float) * list (list float))))" % (
                        A, tab(tabT), "; ".join(imp_calls), "; ".join(imp_obs)))

    @staticmethod
    def op_str(op):
        m = " + caller overwrites the returned arrays in place" if op.get("mutate") else ""
        if op["op"] == "get_lonlats":
            return "get_lonlats(data_slice=%r, chunks=%r, dtype=%r, cache=%r)%s" % (op.get("slice"), op.get("chunks"), op.get("dtype"), bool(op.get("cache")), m)
        if op["op"] == "get_proj_coords":
            return "get_proj_coords(data_slice=%r, chunks=%r)%s" % (op.get("slice"), op.get("chunks"), m)
        if op["op"] == "get_proj_vectors":
            return "get_proj_vectors()" + m
        if op["op"] == "projection_coords":
            return "projection_x_coords, projection_y_coords" + m
        if op["op"] == "get_lonlat":
            return "get_lonlat(%d, %d)" % (op["row"], op["col"])
        return "colrow2lonlat(%d, %d)" % (op["col"], op["row"])

    @staticmethod
    def norm_chunks(ch, h, w):
        import dask.array as da
        if isinstance(ch, list):
            ch = tuple(tuple(x) if isinstance(x, list) else x for x in ch)
        y, x = (ch, ch) if isinstance(ch, int) else (ch[0], ch[1])
        n = da.core.normalize_chunks((y, x), (h, w), dtype=np.float64)
        return [list(map(int, n[0])), list(map(int, n[1]))]

    def lonlat(self, A, xs, ys, vec_ok):
        ctx, spec, obs, o = self.ctx, self.spec, self.obs, self.o
        h, w = spec["h"], spec["w"]
        T, P, R = self.T, self.P, self.R
        # canonical coordinates (correctly rounded from the exact rationals) and their reference geodetic inverse
        cx = np.array([float(o.X(c)) for c in range(w)])
        cy = np.array([float(o.Y(r)) for r in range(h)])
        CX, CY = np.meshgrid(cx, cy)
        RLON, RLAT = R.transform(CX, CY, direction=INV)
        tabT, tabP, tabF = {}, {}, {}

        def tT(x, y):
            k = (bits(x), bits(y))
            if k not in tabT:
                lo, la = T.transform(float(x), float(y), direction=INV)
                tabT[k] = (x, y, float(lo), float(la))
            return tabT[k][2:]

        def tP(x, y):
            k = (bits(x), bits(y))
            if k not in tabP:
                lo, la = P(float(x), float(y), inverse=True)
                tabP[k] = (x, y, float(lo), float(la))
            return tabP[k][2:]

        def tF(lon, lat):
            k = (bits(lon), bits(lat))
            if k not in tabF:
                x, y = P(float(lon), float(lat))
                tabF[k] = (lon, lat, float(x), float(y))
            return tabF[k][2:]

        def cmp_ref(lon, lat, r_, c_, what, key):
            if not self.ll_close(float(lon), float(lat), float(RLON[r_, c_]), float(RLAT[r_, c_]), float(cx[c_]), float(cy[r_])):
                self.fail(key, "%s gives (%.12g, %.12g) for pixel (row %d, col %d) whose centre x=%r y=%r has geodetic lon/lat (%.12g, %.12g)" % (
                    what, lon, lat, r_, c_, float(cx[c_]), float(cy[r_]), float(RLON[r_, c_]), float(RLAT[r_, c_])),
                    {"accessor": what, "row": r_, "col": c_, "impl": [lon, lat], "required": [float(RLON[r_, c_]), float(RLAT[r_, c_])]})
                return False
            return True

        f = {k: [] for k in ("get", "colrow", "from_arr", "from_proj", "proj_from", "arr_from", "idx_arr", "idx_sc", "np", "da")}
        # get_lonlats requests
        np_req = da_req = None
        for rq, res in zip(spec["lonlats"], obs["lonlats"]):
            what = "get_lonlats(data_slice=%r, chunks=%r, dtype=%r%s)" % (rq.get("slice"), rq.get("chunks"), rq.get("dtype"), ", nprocs=2" if rq.get("nprocs") else "")
            ctx.count("lonlats_" + ("dask" if rq.get("chunks") is not None else "nprocs2" if rq.get("nprocs") else "numpy") + ("_f32" if rq.get("dtype") else "") + ("_sliced" if rq.get("slice") else ""))
            if "error" in res:
                self.fail(INT_KEY if int_int_chunks(rq, res) else "C01.lonlats.error", "%s raised %s" % (what, res))
                continue
            rows, cols = self.rows_cols(rq.get("slice"))
            LO, LA = res["ll"]
            ctx.case(("lonlats", self.spec["crs"], tuple(bits(v) for v in self.spec["extent"]), h, w, repr(rq)),
                     nontrivial=rq.get("slice") is not None or rq.get("chunks") is not None or bool(rq.get("nprocs")),
                     sample=self.smp(3, {"get_lonlats": {"data_slice": rq.get("slice"), "chunks": rq.get("chunks"), "dtype": rq.get("dtype"), "crs": self.name, "shape": [h, w]},
                             "impl_shape": LO["shape"]}))
            want = [len(rows), len(cols)]
            ws = want_shape(rq.get("slice"), rows, cols)
            if LO["shape"] != ws or LA["shape"] != ws:
                int_only = has_int(rq.get("slice")) and LO["shape"] == LA["shape"] and [d for d in LO["shape"] if d != 1] == [d for d in ws if d != 1]
                self.fail(INT_KEY if int_only else "C01.lonlats.shape", "%s returns shape %s, expected %s" % (what, LO["shape"], ws))
                if not int_only:
                    continue
            f32 = rq.get("dtype") == "float32"
            if LO["dtype"] != ("float32" if f32 else "float64"):
                self.fail("C01.lonlats.dtype", "%s returns dtype %s" % (what, LO["dtype"]))
            lo = np.asarray(LO["data"], dtype=float).reshape(want)
            la = np.asarray(LA["data"], dtype=float).reshape(want)
            key = self.ll_key("get_lonlats", False)
            good = True
            for i, r_ in enumerate(rows):
                for j, c_ in enumerate(cols):
                    if f32:
                        tol_px = 16 * U32 * max(o.mx / abs(float(o.dx)), o.my / abs(float(o.dy))) + 1e-3
                        fi = math.isfinite(lo[i, j]) and math.isfinite(la[i, j])
                        fr = math.isfinite(RLON[r_, c_]) and math.isfinite(RLAT[r_, c_])
                        if fi and fr and float(ang_deg(lo[i, j], la[i, j], RLON[r_, c_], RLAT[r_, c_])) > 1e-4 and \
                                not self.ll_close(float(lo[i, j]), float(la[i, j]), float(RLON[r_, c_]), float(RLAT[r_, c_]), float(cx[c_]), float(cy[r_]), tol_px):
                            self.fail(key + (".f32" if self.cls == "plain" else ""), "%s: (%r,%r) for pixel (%d,%d), geodetic lon/lat (%r,%r)" % (what, lo[i, j], la[i, j], r_, c_, RLON[r_, c_], RLAT[r_, c_]))
                            good = False
                    elif good and not cmp_ref(lo[i, j], la[i, j], r_, c_, what, key):
                        good = False
            if f32 or not good or not vec_ok or rq.get("nprocs"):
                if rq.get("nprocs") and good and vec_ok:
                    # Proj_MP uses the same Transformer route on the same bits
                    if not all(same(lo[i, j], tT(xs[cols[j]], ys[rows[i]])[0]) and same(la[i, j], tT(xs[cols[j]], ys[rows[i]])[1])
                               for i, j in self.samples(len(rows), len(cols))):
                        self.ctx.broken.append(("correspondence:lonlats_nprocs", "%s differs bitwise from the Transformer route" % what))
                continue
            smp = self.samples(len(rows), len(cols))
            for i, j in smp:
                tT(xs[cols[j]], ys[rows[i]])
            stxt = "[" + "; ".join("(%d, %d, %s, %s)" % (i, j, fhex(lo[i, j]), fhex(la[i, j])) for i, j in smp) + "]"
            if rq.get("chunks") is not None:
                if da_req is None:
                    da_req = (rows, cols, res["norm_chunks"], stxt)
            elif np_req is None or (rq.get("slice") is not None and np_req[3] is None):
                np_req = (rows, cols, stxt, rq.get("slice"))
        # single pixels
        pix = spec["pix"]
        for (r_, c_), g, cr in zip(pix, obs.get("get_lonlat", []), obs.get("colrow2lonlat", [])):
            if "error" in g:
                self.fail("C01.lonlat.get_lonlat.error", "get_lonlat(%d,%d) raised %s" % (r_, c_, g))
            else:
                cmp_ref(g["value"][0], g["value"][1], r_, c_, "get_lonlat(row, col)", self.ll_key("get_lonlat", False))
                if vec_ok:
                    tT(xs[c_], ys[r_])
                    f["get"].append("(%d, %d, %s, %s)" % (r_, c_, fhex(g["value"][0]), fhex(g["value"][1])))
            if "error" in cr:
                self.fail("C01.lonlat.colrow2lonlat.error", "colrow2lonlat(%d,%d) raised %s" % (c_, r_, cr))
            else:
                cmp_ref(cr["value"][0], cr["value"][1], r_, c_, "colrow2lonlat(col, row)", self.ll_key("colrow2lonlat", True))
                if vec_ok:
                    tP(xs[c_], ys[r_])
                    f["colrow"].append("(%d, %d, %s, %s)" % (c_, r_, fhex(cr["value"][0]), fhex(cr["value"][1])))
        # H_same on the implementation: both single-pixel accessors return the same point
        for (r_, c_), g, cr in zip(pix, obs.get("get_lonlat", []), obs.get("colrow2lonlat", [])):
            if "value" in g and "value" in cr and all(math.isfinite(v) for v in g["value"] + cr["value"]) and \
                    float(ang_deg(g["value"][0], g["value"][1], cr["value"][0], cr["value"][1])) > 1e-9:
                key = "C01.H_same.bound_crs" if self.cls == "bound" else "C01.lonlat.derived_geographic_crs" if self.cls == "derived_geographic" else "C01.H_same." + self.name
                self.fail(key, "get_lonlat(%d,%d) = (%.9g, %.9g) but colrow2lonlat(%d,%d) = (%.9g, %.9g): the two inverse-projection routes of the code disagree" % (
                    r_, c_, g["value"][0], g["value"][1], c_, r_, cr["value"][0], cr["value"][1]),
                    {"row": r_, "col": c_, "get_lonlat": g["value"], "colrow2lonlat": cr["value"]})
        cra = obs.get("colrow2lonlat_arr")
        if isinstance(cra, list):
            for (r_, c_), lo, la, cr in zip(pix, cra[0]["data"], cra[1]["data"], obs.get("colrow2lonlat", [])):
                if "value" in cr and not (same(lo, cr["value"][0]) and same(la, cr["value"][1])):
                    self.fail("C01.lonlat.colrow2lonlat.array", "colrow2lonlat array call differs from the scalar call at (%d,%d)" % (c_, r_))
        elif cra:
            self.fail("C01.lonlat.colrow2lonlat.error", "colrow2lonlat(arrays) raised %s" % cra)
        # fractional array coordinates -> lon/lat
        la_ = obs.get("lonlat_of_arr")
        pa_ = obs.get("proj_of_arr")
        if isinstance(la_, list) and isinstance(pa_, list):
            for (c_, r_), lo, la, x, y in zip(spec["pts_arr"], la_[0]["data"], la_[1]["data"], pa_[0]["data"], pa_[1]["data"]):
                ex, ey = float(o.X(Fr(c_))), float(o.Y(Fr(r_)))
                rl = R.transform(ex, ey, direction=INV)
                if not (math.isfinite(rl[0]) and math.isfinite(rl[1])):
                    ctx.count("point_outside_projection_domain")
                elif not self.ll_close(lo, la, float(rl[0]), float(rl[1]), ex, ey):
                    self.fail(self.ll_key("get_lonlat_from_array_coordinates", True),
                              "get_lonlat_from_array_coordinates(%r,%r) gives (%.12g,%.12g), geodetic lon/lat of that point is (%.12g,%.12g)" % (c_, r_, lo, la, rl[0], rl[1]))
                tP(x, y)
                f["from_arr"].append("(%s, %s, %s, %s)" % (fhex(c_), fhex(r_), fhex(lo), fhex(la)))
        elif isinstance(la_, dict):
            self.fail("C01.lonlat.from_arr.error", "get_lonlat_from_array_coordinates raised %s" % la_)
        # projection coordinates -> lon/lat
        lp = obs.get("lonlat_of_proj")
        if isinstance(lp, list):
            for (x, y), kd, lo, la in zip(spec["pts_proj"], self.meta["pt_kinds"], lp[0]["data"], lp[1]["data"]):
                if kd[0] == "malformed":
                    continue
                rl = R.transform(x, y, direction=INV)
                if not (math.isfinite(rl[0]) and math.isfinite(rl[1])):
                    ctx.count("point_outside_projection_domain")
                elif not self.ll_close(lo, la, float(rl[0]), float(rl[1]), x, y):
                    self.fail(self.ll_key("get_lonlat_from_projection_coordinates", True),
                              "get_lonlat_from_projection_coordinates(%r,%r) gives (%.12g,%.12g), geodetic lon/lat is (%.12g,%.12g)" % (x, y, lo, la, rl[0], rl[1]))
                tP(x, y)
                f["from_proj"].append("(%s, %s, %s, %s)" % (fhex(x), fhex(y), fhex(lo), fhex(la)))
        elif isinstance(lp, dict):
            self.fail("C01.lonlat.from_proj.error", "get_lonlat_from_projection_coordinates raised %s" % lp)
        # lon/lat -> projection coordinates, fractional and integer indices
        pl = spec["pts_lonlat"]
        plk = self.meta["ll_kinds"]
        pol, aol, iol = obs.get("proj_of_lonlat"), obs.get("arr_of_lonlat"), obs.get("idx_of_lonlat")
        for nm, v_ in (("get_projection_coordinates_from_lonlat", pol), ("get_array_coordinates_from_lonlat", aol), ("get_array_indices_from_lonlat", iol)):
            if isinstance(v_, dict):
                self.fail("C01.lonlat.forward.error", "%s raised %s" % (nm, v_))
        if isinstance(pol, list) and isinstance(aol, list) and isinstance(iol, list):
            for i, ((lon, lat), kd) in enumerate(zip(pl, plk)):
                x, y = pol[0]["data"][i], pol[1]["data"][i]
                cf, rf = aol[0]["data"][i], aol[1]["data"][i]
                cd, cm, rd, rm = iol[0]["data"][i], iol[0]["mask"][i], iol[1]["data"][i], iol[1]["mask"][i]
                ctx.count("lonlat_pt_" + kd[0])
                if kd[0] == "pixel_T":
                    # round trip: lon/lat of pixel (r, c) as get_lonlats defines it -> back to (c, r)
                    r_, c_ = kd[1], kd[2]
                    fin = math.isfinite(lon) and math.isfinite(lat)
                    if fin:
                        slack_x = 1e-6 * abs(float(o.dx)) + 8 * U64 * o.mx + self.acc
                        slack_y = 1e-6 * abs(float(o.dy)) + 8 * U64 * o.my + self.acc
                        tol_c = 1e-5 + 2 * slack_x / abs(float(o.dx))
                        tol_r = 1e-5 + 2 * slack_y / abs(float(o.dy))
                        if not (finite(x) and finite(y) and abs(x - float(cx[c_])) <= slack_x and abs(y - float(cy[r_])) <= slack_y):
                            # accept ill-conditioned points where the reference forward map itself does not return to the centre
                            bx, by = R.transform(lon, lat)
                            if abs(bx - float(cx[c_])) <= slack_x and abs(by - float(cy[r_])) <= slack_y:
                                self.fail(self.ll_key("get_projection_coordinates_from_lonlat", True),
                                          "get_projection_coordinates_from_lonlat(lon/lat of pixel (row %d, col %d) = (%.12g, %.12g)) gives (%r, %r), the pixel centre is (%r, %r)" % (
                                              r_, c_, lon, lat, x, y, float(cx[c_]), float(cy[r_])),
                                          {"row": r_, "col": c_, "lonlat": [lon, lat], "impl": [x, y], "required": [float(cx[c_]), float(cy[r_])]})
                            else:
                                ctx.count("lonlat_roundtrip_ill_conditioned")
                                fin = False
                        if fin and not (finite(cf) and finite(rf) and abs(cf - c_) <= tol_c and abs(rf - r_) <= tol_r):
                            self.fail(self.ll_key("get_array_coordinates_from_lonlat", True),
                                      "get_array_coordinates_from_lonlat(lon/lat of pixel (row %d, col %d)) gives (%r, %r)" % (r_, c_, cf, rf),
                                      {"row": r_, "col": c_, "lonlat": [lon, lat], "impl": [cf, rf]})
                        if fin and max(tol_c, tol_r) >= 0.4:
                            ctx.count("lonlat_roundtrip_below_proj_accuracy")
                        elif fin and (cm or rm or cd != c_ or rd != r_):
                            self.fail(self.ll_key("get_array_indices_from_lonlat", True),
                                      "get_array_indices_from_lonlat(lon/lat of pixel (row %d, col %d)) gives col %d%s row %d%s" % (
                                          r_, c_, cd, " (masked)" if cm else "", rd, " (masked)" if rm else ""))
                elif kd[0] == "point_P" and finite(x) and finite(y) and math.isfinite(lon) and math.isfinite(lat):
                    # integer lookup from lon/lat must satisfy the containment rule for the point it projects to
                    m = check_axis_lookup(w, o.col_of(x), o.index_slack(0, x), cd, cm)
                    if m:
                        self.fail("C01.index_from_lonlat.col", "get_array_indices_from_lonlat(%r,%r) -> x=%r: %s" % (lon, lat, x, m))
                    m = check_axis_lookup(h, o.row_of(y), o.index_slack(1, y), rd, rm)
                    if m:
                        self.fail("C01.index_from_lonlat.row", "get_array_indices_from_lonlat(%r,%r) -> y=%r: %s" % (lon, lat, y, m))
                elif kd[0] == "malformed":
                    if (math.isinf(x) or math.isinf(y)) and not (cm or rm):
                        self.fail("C01.index_from_lonlat.infinite", "lon/lat (%r,%r) projects to (%r,%r) and is not masked" % (lon, lat, x, y))
                tF(lon, lat)
                f["proj_from"].append("(%s, %s, %s, %s)" % (fhex(lon), fhex(lat), fhex(x), fhex(y)))
                f["arr_from"].append("(%s, %s, %s, %s)" % (fhex(lon), fhex(lat), fhex(cf), fhex(rf)))
                f["idx_arr"].append("(%s, %s, %d, %s, %d, %s)" % (fhex(lon), fhex(lat), cd, "true" if cm else "false", rd, "true" if rm else "false"))
            for i, sc in enumerate(obs.get("idx_of_lonlat_scalar", [])):
                lon, lat = pl[i]
                cd, cm, rd, rm = iol[0]["data"][i], iol[0]["mask"][i], iol[1]["data"][i], iol[1]["mask"][i]
                if "error" in sc:
                    if sc["error"] != "ValueError" or not (cm or rm):
                        self.fail("C01.index_from_lonlat.scalar", "scalar get_array_indices_from_lonlat(%r,%r) raised %s; array call: col %d%s row %d%s" % (
                            lon, lat, sc, cd, " (masked)" if cm else "", rd, " (masked)" if rm else ""))
                    f["idx_sc"].append("(%s, %s, None)" % (fhex(lon), fhex(lat)))
                else:
                    if lon != lon or lat != lat:
                        continue
                    if cm or rm or sc["value"] != [cd, rd]:
                        self.fail("C01.index_from_lonlat.scalar", "scalar get_array_indices_from_lonlat(%r,%r) returned %s; array call: col %d%s row %d%s" % (
                            lon, lat, sc, cd, " (masked)" if cm else "", rd, " (masked)" if rm else ""))
                    f["idx_sc"].append("(%s, %s, Some (%d, %d))" % (fhex(lon), fhex(lat), sc["value"][0], sc["value"][1]))
            for i, (sa, sp_) in enumerate(zip(obs.get("arr_of_lonlat_scalar", []), obs.get("proj_of_lonlat_scalar", []))):
                if "error" in sa or "error" in sp_ or not (same(sa["value"][0], aol[0]["data"][i]) and same(sa["value"][1], aol[1]["data"][i])
                                                         and same(sp_["value"][0], pol[0]["data"][i]) and same(sp_["value"][1], pol[1]["data"][i])):
                    self.fail("C01.lonlat.forward.scalar", "scalar and array calls of the lon/lat -> projection/array conversions differ at %r: %s %s" % (pl[i], sa, sp_))
            for i, sc in enumerate(obs.get("lonlat2colrow_scalar", [])):
                ref = obs["idx_of_lonlat_scalar"][i]
                if ("error" in sc) != ("error" in ref) or sc.get("value") != ref.get("value"):
                    self.fail("C01.index_from_lonlat.lonlat2colrow", "lonlat2colrow differs from get_array_indices_from_lonlat at %r: %s vs %s" % (pl[i], sc, ref))
        if not vec_ok:
            return

        def tab(t):
            return "[" + "; ".join("((%s, %s), (%s, %s))" % tuple(fhex(v) for v in e) for e in t.values()) + "]"
        np_ = np_req or ([], [], "[]", None)
        da_ = da_req
        txt = ("(mk_ll %s %s %s %s [%s] [%s] [%s] [%s] [%s] [%s] [%s] [%s] %s %s %s %s %s %s %s)" % (
            A, tab(tabT), tab(tabP), tab(tabF),
            "; ".join(f["get"]), "; ".join(f["colrow"]), "; ".join(f["from_arr"]), "; ".join(f["from_proj"]),
            "; ".join(f["proj_from"]), "; ".join(f["arr_from"]), "; ".join(f["idx_arr"]), "; ".join(f["idx_sc"]),
            zlist(np_[0] if not da_ else da_[0]), zlist(np_[1] if not da_ else da_[1]),
            zlist(da_[2][0]) if da_ else "[]", zlist(da_[2][1]) if da_ else "[]",
            (np_[2] if not da_ else "[]"), (da_[3] if da_ else "[]"), "true" if da_ else "false"))
        self.coq["lonlat"].append(txt)
        if da_ and np_req:
            # a second record for the numpy-path request (the record carries one rows/cols selection)
            txt2 = "(mk_ll %s %s [] [] [] [] [] [] [] [] [] [] %s %s [] [] %s [] false)" % (A, tab(tabT), zlist(np_[0]), zlist(np_[1]), np_[2])
            self.coq["lonlat"].append(txt2)


# ------------------------------------------------------------------------------------------------ run
HDR = ("From Coq Require Import ZArith List Bool PrimFloat.\n"
       "From PR Require Import Base.Num Base.F64 Base.ListX Model.Grid Model.C01_Area Model.C01_Cache Model.C01_run.\n"
       "Import ListNotations.\nOpen Scope Z_scope.\n")
GEN_CHK = ("Definition chk_gen_arr (c : area float * list (float * float * float * float)) : bool := let '(a, pts) := c in "
           "forallb (fun p => let '(x, y, cf, rf) := p in ff_eqb (gen01_array_coordinates_from_projection_coordinates F64 a x y) (cf, rf)) pts.\n"
           "Definition chk_gen_proj (c : area float * list (float * float * float * float)) : bool := let '(a, pts) := c in "
           "forallb (fun p => let '(cf, rf, x, y) := p in ff_eqb (gen01_projection_coordinates_from_array_coordinates F64 a cf rf) (x, y)) pts.\n"
           "Definition gen_init (a : area float) := gen01_init F64 (width a) (height a) (xmin a, ymin a, xmax a, ymax a).\n"
           "Definition chk_gen_init (c : area float * list float) : bool := let '(a, obs) := c in "
           "let '(psx, psy, ul, ox, oy) := gen_init a in list_eqb same_bits [psx; psy; fst ul; snd ul; ox; oy] obs.\n"
           "Definition chk_gen_vec (c : area float * list float * list float) : bool := let '(a, xs, ys) := c in "
           "let '(psx, psy, ul, _, _) := gen_init a in "
           "list_eqb same_bits (map (fun k => fst (gen01_proj_vector_elements F64 (psx, psy) ul k 0)) (c01_range 0 (width a))) xs && "
           "list_eqb same_bits (map (fun k => snd (gen01_proj_vector_elements F64 (psx, psy) ul 0 k)) (c01_range 0 (height a))) ys.\n"
           "Definition imp_self0 : areaobj (list (list float)) := mk_areaobj None None 1 tt tt.\n"
           "Definition g_eqb (x y : list (list float)) : bool := list_eqb (list_eqb same_bits) x y.\n"
           "Definition chk_imp_history (c : area float * table * list (option (list Z * list Z) * bool) * list (list (list float) * list (list float))) : bool := "
           "let '(a, tT, calls, obs) := c in list_eqb (fun m o => match m with Some (lo, la) => g_eqb lo (fst o) && g_eqb la (snd o) | None => false end) "
           "(imp_lonlats_history [] (c01_pc_inst F64 a) (c01_inv_inst (lookup tT)) (c01_slice_inst F64) imp_self0 calls) obs.\n"
           "Definition gen_axis_ok (v : float) (d d' : Z) (m m' : bool) : bool := Bool.eqb m m' && (f_isnan v || (d =? d')).\n"
           "Definition chk_gen_idx (c : area float * list (float * float * Z * bool * Z * bool)) : bool := let '(a, pts) := c in "
           "forallb (fun p => let '(x, y, cd, cm, rd, rm) := p in "
           "let '(cf, rf) := gen01_array_coordinates_from_projection_coordinates F64 a x y in "
           "let '(cd', rd', cm', rm') := gen01_masked_ints F64 a cf rf in gen_axis_ok cf cd' cd cm' cm && gen_axis_ok rf rd' rd rm' rm) pts.\n")
GEN_EVALS = [("history_imp", "chk_imp_history"), ("coords32", "chk_coords32"), ("arr_of_proj", "chk_gen_arr"), ("proj_of_arr", "chk_gen_proj"), ("attrs", "chk_gen_init"), ("vectors", "chk_gen_vec"),
             ("index_array", "chk_gen_idx")]
CHK = {"attrs": "chk_attrs", "vectors": "chk_vectors", "coords_numpy": "chk_coords_numpy", "coords_dask": "chk_coords_dask",
       "arr_of_proj": "chk_arr_of_proj", "proj_of_arr": "chk_proj_of_arr", "index_array": "chk_index_array",
       "index_scalar": "chk_index_scalar", "lonlat": "chk_lonlat", "history": "chk_history"}
def evaluate(ctx, specs):
    """Run the implementation on the specs, apply the property oracle; returns per-area Coq case lines."""
    obs = []
    B = 40
    batches = [specs[i:i + B] for i in range(0, len(specs), B)]
    from concurrent.futures import ThreadPoolExecutor
    with ThreadPoolExecutor(max_workers=6) as ex:
        for res in ex.map(lambda b: ctx.impl("c01", {"areas": [{k: v for k, v in s.items() if k != "meta"} for s in b]}), batches):
            obs += res["areas"]
    out = []
    for spec, o in zip(specs, obs):
        coq = {k: [] for k in CHK}
        Eval(ctx, spec, o, coq).run()
        out.append(coq)
    return out


def run(ctx):
    ctx.rule = ("Generation (all from VERIF_SEED): areas = CRS pool (%d CRSs: longlat, eqc, merc, stere N/S, laea, lcc, tmerc, geos, +pm, sphere, km units, "
                "3 EPSG codes, ortho, ob_tran/eqc, plus one Bound CRS and one rotated-pole geographic CRS on purpose; the first 2x%d areas walk the pool, "
                "the rest draw from it) x extent style (dyadic lattice / arbitrary / round numbers / tiny pixels far from the origin / extreme aspect) "
                "x shape 1..60 (1xN, Nx1, 1x1 included) x 15%% y-flipped, 5%% x-flipped extents. Per area: 1-D vectors (numpy, dask, float32, "
                "deprecated *_dask aliases); get_proj_coords and get_lonlats whole / data_slice (integer indices, slices with steps, negative and "
                "out-of-range bounds, rows-only slice) / ragged and 1-element dask chunk tuples / float32 (/ nprocs=2 in the thorough tier); both affine "
                "conversions and array + scalar integer lookups on points built from exact fractional-index targets (centres, cell borders, both "
                "outer edges, the eps tolerance band inside / on the limit / outside, +-1 ulp, half a pixel and far outside) plus a malformed stream "
                "(NaN, inf, 1e30); every lon/lat accessor and the lon/lat -> projection / array / index round trips; deprecated entry points; and "
                "1-2 call HISTORIES (2-5 PRNG steps of get_lonlats with cache=True/False, slices, chunks, get_lonlat, colrow2lonlat) on one object. "
                "Cases counted: one per area, per get_proj_coords/get_lonlats request, per lookup point and per history prefix. Non-trivial: an area "
                "with a multi-block dask request or a border/band point; a request with a data_slice, chunks or nprocs; a lookup point on a cell "
                "border, an outer edge or in the tolerance band; a history step taken after an earlier cache=True call. distinct = distinct "
                "(CRS, extent bits, shape[, request | point bits | history prefix]). Nothing is enumerated exhaustively." % (len(POOL), len(POOL)))
    rng = ctx.rng
    n = ctx.n(96, 1500)
    specs = [gen_area(rng, ctx.thorough, i) for i in range(n)]
    correspond(ctx, evaluate(ctx, specs))
    ctx.notes.append("float32 projection vectors / coordinates are modelled bit-exactly (Model/C01_F32.v: binary64 operation then rounding to "
                     "binary32); float32 lon/lats are observed against the reference with a float32 tolerance only")
    ctx.notes.append("lon/lat: PROJ is an oracle; the model is evaluated with finite tables produced by pyproj on the coordinate bits; "
                     "theorem C01_lonlat_roundtrip assumes H_roundtrip, H_same, H_dom")


def correspond(ctx, per_area, shard=12):
    """One Coq file per shard of areas; one Eval per kind of observation."""
    kinds = list(CHK)
    texts = []
    for k in range(0, len(per_area), shard):
        part = per_area[k:k + shard]
        body, lines = [], {}
        for kind in kinds:
            ls = [l for c in part for l in c[kind]]
            lines[kind] = ls
            # the list is written inline so that an empty one still type-checks
            body.append("Eval vm_compute in (bad %s [%s]).\n" % (CHK[kind], ";\n".join(ls)))
        texts.append(("c01_cases_%03d" % (k // shard), HDR + "".join(body), lines))
    # the definitions regenerated from the current source (coq/Gen/GenC01.v), on all affine points
    gen_files = []
    GS = 60
    for k in range(0, len(per_area), GS):
        part = per_area[k:k + GS]
        body = ""
        for kind, chk in GEN_EVALS:
            body += "Eval vm_compute in (bad %s [%s]).\n" % (chk, ";\n".join(l for c in part for l in c[kind]))
        gen_files.append(("c01_gen_%03d" % (k // GS), HDR.replace("Model.C01_run.", "Model.C01_run Model.C01_F32 Gen.GenC01 Base.Imp Model.C01_ImpObj Gen.GenC01imp Proofs.C01_imp.") + GEN_CHK + body))
    res = ctx.coq_eval_many([(nm, t) for nm, t, _ in texts] + gen_files)
    for nm, _ in gen_files:
        out, ok = res[nm]
        vals = evals(out) if ok else []
        if not ok or len(vals) != len(GEN_EVALS):
            ctx.broken.append(("correspondence:generated", "the definitions regenerated from the source (Gen/GenC01.v) do not evaluate (%s): %s" % (nm, out[-300:])))
            continue
        for (kind, chk), v in zip(GEN_EVALS, vals):
            if re.findall(r"\d", v):
                ctx.broken.append(("correspondence:generated_" + kind, "regenerated definition (%s) and the implementation differ in %s on cases %s" % (chk, nm, v[:200])))
    for nm, _, lines in texts:
        out, ok = res[nm]
        vals = evals(out) if ok else []
        if not ok or len(vals) != len(kinds):
            ctx.broken.append(("correspondence:model", "model evaluation failed (%s): %s" % (nm, out[-400:])))
            continue
        for kind, v in zip(kinds, vals):
            bad = [int(x) for x in re.findall(r"-?\d+", re.sub(r"%[a-zA-Z]+", "", v))]
            if bad:
                ctx.broken.append(("correspondence:" + kind, "model and implementation differ on %d of %d cases in %s, e.g. %s" % (
                    len(bad), len(lines[kind]), nm, lines[kind][bad[0]][:300])))


def replay(ctx, data):
    spec = data["case"]["spec"]
    evaluate(ctx, [spec])
    return any(f.key == data.get("key") for f in ctx.failures)
