"""C08 — EWA maps swath pixels exactly and averages them without inventing values."""
import math
import os
import time
from concurrent.futures import ThreadPoolExecutor

import numpy as np
from pyproj import Proj

from .common import fhex, ints

PROP_FILE = "Properties/C08.v"
GEN = ["GenC08", "GenC08imp"]
RUN_FILES = ["Model/C08_run.v", "Model/C08_rungen.v"]

NAN = float("nan")
INF = float("inf")
U24 = 2.0 ** -24


def H(v):
    return float(v).hex()


def U(s):
    return float.fromhex(s)


def fh(x):
    s = fhex(x)
    return {"nan": "PrimFloat.nan", "infinity": "PrimFloat.infinity", "neg_infinity": "PrimFloat.neg_infinity"}.get(s, s)


def qd(x):
    """A float as an exact rational literal of Model/C08_run.v: dy m e = m * 2^e."""
    m, d = float(x).as_integer_ratio()
    return "(dy (%d) (%d))" % (m, -(d.bit_length() - 1))


def f32(x):
    return float(np.float32(x))


def isfill(o, fill):
    return (o != o) if fill != fill else (o == fill)


# ----------------------------------------------------------------------------------------------- generators
# (name, proj dict, base pixel size, centre of the test areas in projection coordinates)
CRS = [
    ("laea", {"proj": "laea", "lat_0": 52, "lon_0": 10, "ellps": "WGS84"}, 5e4, (0.0, 0.0)),
    ("stere_n", {"proj": "stere", "lat_0": 90, "lon_0": 0, "lat_ts": 60, "ellps": "WGS84"}, 5e4, (2e5, -1.5e6)),
    ("merc", {"proj": "merc", "lon_0": 0, "ellps": "WGS84"}, 5e4, (1e6, 6.5e6)),
    ("eqc", {"proj": "eqc", "lon_0": 0, "ellps": "WGS84"}, 5e4, (-3e6, 1e6)),
    ("longlat", {"proj": "longlat", "datum": "WGS84"}, 0.5, (20.0, 40.0)),
    ("lcc", {"proj": "lcc", "lat_1": 30, "lat_2": 60, "lat_0": 45, "lon_0": 10, "ellps": "WGS84"}, 5e4, (1e5, 2e5)),
    ("tmerc", {"proj": "tmerc", "lon_0": 15, "lat_0": 0, "k": 0.9996, "x_0": 500000, "ellps": "WGS84"}, 2e4, (5e5, 5.5e6)),
    ("geos", {"proj": "geos", "h": 35785831.0, "lon_0": 0, "ellps": "WGS84"}, 2e5, (0.0, 4.2e6)),
    ("stere_s", {"proj": "stere", "lat_0": -90, "lon_0": 0, "lat_ts": -71, "ellps": "WGS84"}, 5e4, (-5e5, 8e5)),
]
DEFAULT_PARAMS = dict(weight_count=10000, weight_min=0.01, weight_distance_max=1.0, weight_delta_max=10.0, weight_sum_min=-1.0)


def gen_area(r, maxh, maxw, crs=None):
    name, proj, base, (cx, cy) = crs or r.choice(CRS)
    h, w = r.randint(3, maxh), r.randint(3, maxw)
    dyadic = r.random() < 0.35
    if dyadic:
        k = round(math.log2(base)) + r.randint(-1, 1)
        px = py = 2.0 ** k
        if r.random() < 0.4:
            py = px * 2
        cx, cy = round(cx / px) * px, round(cy / py) * py
    else:
        px = base * r.uniform(0.6, 1.7)
        py = px * (1.0 if r.random() < 0.5 else r.uniform(0.7, 1.4))
        cx, cy = cx + r.uniform(-3, 3) * px, cy + r.uniform(-3, 3) * py
    x0, x1 = cx - px * w / 2, cx - px * w / 2 + px * w
    y0, y1 = cy - py * h / 2, cy - py * h / 2 + py * h
    flipy, flipx = r.random() < 0.3, r.random() < 0.1
    if flipy:
        y0, y1 = y1, y0
    if flipx:
        x0, x1 = x1, x0
    cls = name + ("_dyadic" if dyadic else "") + ("_flipy" if flipy else "") + ("_flipx" if flipx else "")
    return {"proj": proj, "shape": [h, w], "extent": [H(x0), H(y0), H(x1), H(y1)], "cls": cls,
            "flipped": bool(flipy or flipx)}


def area_xy(area, cols, rows):
    """Projection coordinates of fractional (col, row) positions of the area's own grid."""
    x0, y0, x1, y1 = [U(s) for s in area["extent"]]
    h, w = area["shape"]
    psx, psy = (x1 - x0) / w, (y1 - y0) / h
    return x0 + (cols + 0.5) * psx, y1 - (rows + 0.5) * psy


def gen_colrow(r, R, C, h, w, spacing=None, first_row=None, scan=None):
    """A scan-like field of fractional columns/rows: rotated, sheared, slightly curved lattice.  scan = (g, f): real scan
    geometry, the rows of one scan of g rows are f times as far apart as the scan-to-scan advance would put them."""
    s = spacing if spacing is not None else r.choice([0.45, 0.8, 1.0, 1.3, 2.0, 3.0])
    th = r.uniform(-0.5, 0.5) if r.random() < 0.7 else r.choice([0.0, math.pi / 2, math.pi])
    sy = s * r.uniform(0.7, 1.3)
    i, j = np.meshgrid(np.arange(R, dtype=float), np.arange(C, dtype=float), indexing="ij")
    if scan is not None:
        g, f = scan
        i = (i // g) * g + (i % g - (g - 1) / 2) * f + (g - 1) / 2
    ic, jc = i - (R - 1) / 2, j - (C - 1) / 2
    curve = r.uniform(-0.01, 0.01)
    u = s * jc * math.cos(th) - sy * ic * math.sin(th) + curve * ic * ic
    v = s * jc * math.sin(th) + sy * ic * math.cos(th) + curve * jc * jc
    c0 = (w - 1) / 2 + r.uniform(-0.3, 0.3) * w
    r0 = (h - 1) / 2 + r.uniform(-0.3, 0.3) * h
    cols, rows = c0 + u, r0 + v
    if first_row is not None:      # axis-aligned scan lines starting above the grid (dropped-chunk geometry)
        cols = (w - 1) / 2 + s * jc
        rows = first_row + s * i
    return cols, rows


def gen_data(r, R, C, dtype, mwm, fill):
    kind = r.choice(["smooth", "noise", "const", "ints", "wide"])
    i, j = np.meshgrid(np.arange(R, dtype=float), np.arange(C, dtype=float), indexing="ij")
    if dtype == "i1":      # int8 data: no NaN, invalid pixels carry the fill value
        kind = r.choice(["ints8", "ints8", "const8"])
        d = np.array([[float(r.randint(-100, 100)) for _ in range(C)] for _ in range(R)]) if kind == "ints8" else np.full((R, C), float(r.choice([5, 1, -7])))
        d[d == fill] += 1.0
        const = float(d[0, 0]) if kind == "const8" else None
        frac = r.choice([0.0, 0.1, 0.3])
        has_fill = False
        for a in range(R):
            for b in range(C):
                if r.random() < frac:
                    d[a, b] = fill
                    has_fill = True
        return d, kind, const, has_fill
    if kind == "smooth":
        d = 15 + 4 * np.sin(i / 3.0) + 3 * np.cos(j / 4.0)
    elif kind == "noise":
        d = np.array([[r.uniform(10, 20) for _ in range(C)] for _ in range(R)])
    elif kind == "const":
        d = np.full((R, C), r.choice([5.0, 0.1, -273.15, 1e4]))
    elif kind == "ints":
        d = np.array([[float(r.randint(-5, 40)) for _ in range(C)] for _ in range(R)])
    else:
        d = np.array([[r.uniform(-1e3, 1e3) for _ in range(C)] for _ in range(R)])
    if dtype == "f4" or mwm:
        d = d.astype(np.float32).astype(np.float64)      # values exactly representable in binary32
    const = float(d[0, 0]) if kind == "const" else None
    nanfrac = r.choice([0.0, 0.0, 0.1, 0.4])
    has_fill = False
    for a in range(R):
        for b in range(C):
            if r.random() < nanfrac:
                if fill == fill and r.random() < 0.6:
                    d[a, b] = fill
                    has_fill = True
                else:
                    d[a, b] = NAN
    if r.random() < 0.08:
        d[r.randrange(R)] = NAN     # a whole scan row invalid
    return d, kind, const, has_fill


LAYOUTS = ["strided_cols", "strided_rows", "window", "fortran", "transposed", "negative"]


def gen_layout(r, p=0.5):
    """Memory layout of an input array: the same values as a strided view into a larger array (whose other elements are
    far outside the data range), Fortran-ordered, transposed-back, or with negative strides."""
    return r.choice(LAYOUTS) if r.random() < p else "c"


def gen_params(r):
    if r.random() < 0.55:
        return dict(DEFAULT_PARAMS)
    return dict(weight_count=r.choice([10000, 1000, 100, 7]), weight_min=r.choice([0.01, 0.05, 0.001, 0.3]),
                weight_distance_max=r.choice([1.0, 2.0, 0.7, 1.5]), weight_delta_max=r.choice([10.0, 4.0, 1.5]),
                weight_sum_min=r.choice([-1.0, -1.0, 0.05, 0.2, 1.0, 0.0]))


def ws_wsm(p):
    """weight_sum_min handed to write_grid_image_single when re-deriving the one-shot grid from weights/accums:
    one-shot fornav replaces the default -1 by weight_min before writing (the dask path does not)."""
    return p["weight_min"] if p["weight_sum_min"] == -1.0 else p["weight_sum_min"]


def rand_chunks(r, n):
    mode = r.random()
    if mode < 0.2:
        return [n]
    if mode < 0.45:
        k = r.randint(1, n)
        return [k] * (n // k) + ([n % k] if n % k else [])
    out, left = [], n
    while left:
        k = r.randint(1, max(1, min(left, 1 + n // 2))) if len(out) < 4 else left
        out.append(k)
        left -= k
    return out


def gen_rps(r, R):
    divs = [d for d in range(2, R + 1) if R % d == 0]
    return r.choice(divs)


def hex2(a):
    return [[H(v) for v in row] for row in a]


def gen_fornav_case(r, big=False):
    R = r.choice([30, 40]) if big else r.choice([4, 6, 8, 9, 10, 12])
    C = r.choice([24, 30]) if big else r.randint(4, 10)
    h, w = (r.randint(20, 30), r.randint(20, 30)) if big else (r.randint(3, 12), r.randint(3, 12))
    cols, rows = gen_colrow(r, R, C, h, w)
    geo = "plain"
    if r.random() < 0.15:       # bad geolocation inside the swath
        cols[r.randrange(R), r.randrange(C)] = NAN
        geo = "nan_geoloc"
    dtype = r.choice(["f4", "f8", "f4", "f8", "f8", "i1"])
    mwm = r.random() < 0.3 or dtype == "i1"     # integer grids: maximum weight mode (the rounding of integer averages is checked by wgrid)
    fill = float(r.choice([0, 0, -128, 127, -1])) if dtype == "i1" else r.choice([NAN, NAN, -999.0, 0.0, 0.0, 255.0])
    data, kind, const, has_fill = gen_data(r, R, C, dtype, mwm, fill)
    p = gen_params(r)
    return {"cols": hex2(cols), "rows": hex2(rows), "data": hex2(data), "dtype": dtype, "rps": gen_rps(r, R),
            "params": p, "mwm": mwm, "grid": [h, w], "fill": H(fill), "kind": kind, "const": const,
            "has_fill": has_fill, "geo": geo, "ws_wsm": ws_wsm(p), "layout": gen_layout(r, 0.55),
            "geo_layout": gen_layout(r, 0.2), "masked": dtype != "i1" and r.random() < 0.25}


def lonlat_of(area, cols, rows):
    x, y = area_xy(area, cols, rows)
    p = Proj(area["proj"])
    lon, lat = p(x, y, inverse=True)
    return np.asarray(lon, dtype=float), np.asarray(lat, dtype=float)


def gen_scene(r, big=False, dropped=False, many_chunks=False, force_mwm=None):
    maxg = 28 if big else 12
    crs = r.choice([c for c in CRS if c[0] not in ("geos",)])
    area = gen_area(r, maxg, maxg, crs)
    h, w = area["shape"]
    R = r.choice([24, 30]) if big else r.choice([4, 6, 8, 12])
    C = r.choice([20, 24]) if big else r.randint(4, 9)
    rps = gen_rps(r, R)
    if many_chunks:      # >= 5 input chunks: da.reduction combines partial results (tree)
        R, rps = r.choice([(10, 2), (12, 2), (15, 3)])
    if dropped:
        rps, R = 2, 8
        cols, rows = gen_colrow(r, R, C, h, w, spacing=3.0, first_row=-5.5)
    else:
        # real scan geometry for half of the scenes: the scan size then matters for the ellipse parameters
        scan = (rps, r.choice([0.5, 0.7, 1.4])) if r.random() < 0.5 else None
        cols, rows = gen_colrow(r, R, C, h, w, scan=scan)
    lons, lats = lonlat_of(area, cols, rows)
    dtype = "f8" if dropped else r.choice(["f4", "f8", "f4", "f8", "f8", "i1"])
    mwm = ((r.random() < 0.35) if force_mwm is None else force_mwm) or dtype == "i1"
    # explicit fill values incl. the falsy 0 / 0.0; the default (NaN / dtype max) is passed explicitly or left at None
    fill = float(r.choice([0, 0, -128, 127, 127, -1])) if dtype == "i1" else r.choice([NAN, NAN, NAN, -999.0, 0.0, 0.0, -1.0])
    data, kind, const, has_fill = gen_data(r, R, C, dtype, mwm, fill)
    # how the caller states the scan size: keyword only / geolocation attrs only / attrs AND a different explicit keyword /
    # attrs and the keyword 0 (= whole swath)
    attr_rps, rps_kw, rps_mode = None, rps, "keyword"
    if not dropped and not many_chunks:
        others = [d for d in range(2, R + 1) if R % d == 0 and d != rps]
        m = r.random()
        if m < 0.2:
            attr_rps, rps_kw, rps_mode = rps, None, "attrs"
        elif m < 0.5 and others:
            attr_rps, rps_mode = r.choice(others), "attrs_overridden_by_keyword"
        elif m < 0.6:
            attr_rps, rps_kw, rps, rps_mode = rps, 0, R, "attrs_overridden_by_0"
    nscan = R // rps
    in_rows = rps * (1 if (dropped or many_chunks) else r.randint(1, max(1, nscan // 2)))
    sc = dict(area)
    sc.update({"lons": hex2(lons), "lats": hex2(lats), "data": hex2(data), "dtype": dtype, "rps": rps,
               "params": dict(DEFAULT_PARAMS) if dropped else gen_params(r), "mwm": False if dropped else mwm,
               "fill": H(fill), "in_rows": in_rows, "out_chunks": [rand_chunks(r, h), rand_chunks(r, w)],
               # LegacyDaskEWAResampler has no input-fill argument (its fill_value is never handed to fornav): NaN fill only
               "legacy": (not big) and fill != fill and r.random() < 0.6, "want_sub_fp": not big, "want_fp": True,
               "kind": kind, "const": const, "has_fill": has_fill, "grid": [h, w]})
    sc["ws_wsm"] = ws_wsm(sc["params"])
    sc["attr_rps"], sc["rps_kw"], sc["rps_mode"] = attr_rps, rps_kw, rps_mode
    sc["layout"], sc["geo_layout"] = gen_layout(r, 0.5), gen_layout(r, 0.3)
    sc["persist"] = r.random() < 0.45
    sc["probe_rows"] = r.randint(1, R)
    is_default = (fill != fill) if dtype != "i1" else fill == 127.0
    sc["dask_fill_default"] = bool(is_default and r.random() < 0.6)      # True: fill_value is not passed (None)
    if not big and dtype != "i1" and r.random() < 0.4:       # several resample() calls on one resampler object
        sc["history"] = [{"scale": r.choice([1.0, 2.0, -1.0, 0.5]), "shift": r.choice([0.0, 1.0, -8.0]),
                          "out_chunks": [rand_chunks(r, h), rand_chunks(r, w)], "mwm": r.random() < 0.3,
                          "persist": r.random() < 0.5} for _ in range(r.randint(2, 3))]
    return sc


def gen_ll2cr_case(r, big=False):
    area = gen_area(r, 30, 30)
    h, w = area["shape"]
    R, C = (r.randint(20, 40), r.randint(15, 30)) if big else (r.randint(2, 10), r.randint(2, 10))
    cols, rows = gen_colrow(r, R, C, h, w, spacing=r.choice([0.5, 1.0, 2.0, 5.0]))
    # boundary seekers: points at the +-1 cell margin of the count test, on the grid corners
    edge = [(-1.0, -1.0), (w + 1.0, h + 1.0), (-1.0, h / 2), (w / 2, h + 1.0), (w + 1.0 + 1e-9, 0.0), (-1.0 - 1e-9, 0.0),
            (0.0, 0.0), (w - 1.0, h - 1.0), (-0.5, -0.5)]
    for k in range(min(len(edge), R * C)):
        if r.random() < 0.6:
            cols.flat[k], rows.flat[k] = edge[k]
    lons, lats = lonlat_of(area, cols, rows)
    mal = r.random() < 0.35
    if mal:
        for _ in range(r.randint(1, 4)):
            a, b = r.randrange(R), r.randrange(C)
            kind = r.choice(["nan", "1e30", "lat95", "inf", "far"])
            if kind == "nan":
                lons[a, b] = NAN
            elif kind == "1e30":
                lons[a, b], lats[a, b] = 1e30, 1e30
            elif kind == "lat95":
                lats[a, b] = 95.0
            elif kind == "inf":
                lons[a, b] = INF
            else:
                lons[a, b], lats[a, b] = r.uniform(-180, 180), r.uniform(-89, 89)
    c = dict(area)
    c.update({"lons": hex2(lons), "lats": hex2(lats), "fill": H(r.choice([NAN, NAN, -999.0, 1e30])), "malformed": mal,
              "geo_layout": gen_layout(r, 0.4)})
    return c


def gen_wgrid(r):
    n = r.randint(6, 30)
    dtype = r.choice(["f4", "f8", "i1", "i1"])
    mwm = r.random() < 0.3
    wsm = r.choice([-1.0, 0.0, 0.05, 0.5, 2.0])
    ws, acs = [], []
    for _ in range(n):
        if dtype == "i1":
            wv = 2.0 ** r.randint(-6, 3) if r.random() < 0.8 else 0.0
            q = r.randint(-1200, 1200) / 8.0
            av = q if mwm else wv * q
        else:
            wv = f32(r.choice([0.0, 1e-9, 0.01, r.uniform(0, 3), r.uniform(0, 0.1)]))
            av = f32(r.uniform(-50, 50) * max(wv, 0.001))
        if r.random() < 0.05:
            av = NAN
        ws.append(H(f32(wv)))
        acs.append(H(f32(av)))
    fill = r.choice([-128, 127, 0]) if dtype == "i1" else H(r.choice([NAN, -999.0]))
    return {"shape": [1, n], "weights": ws, "accums": acs, "dtype": dtype, "fill": fill, "weight_sum_min": wsm, "mwm": mwm}


# the scene of the known finding C08.dask.dropped_chunk.footprint_beyond_margin, replayed on every run
def known_scene():
    area = {"proj": {"proj": "laea", "lat_0": 50, "lon_0": 10, "ellps": "WGS84"}, "shape": [12, 12],
            "extent": [H(-3e5), H(-3e5), H(3e5), H(3e5)], "cls": "laea_known", "flipped": False}
    R, C = 8, 7
    j, i = np.meshgrid(np.arange(C, dtype=float), np.arange(R, dtype=float))
    x, y = (j - 3) * 150e3, 3e5 + 250e3 - i * 150e3
    lon, lat = Proj(area["proj"])(x, y, inverse=True)
    data = (10 + np.arange(R * C).reshape(R, C)).astype(float)
    sc = dict(area)
    sc.update({"lons": hex2(lon), "lats": hex2(lat), "data": hex2(data), "dtype": "f8", "rps": 2,
               "params": dict(DEFAULT_PARAMS), "mwm": False, "fill": H(NAN), "in_rows": 2, "out_chunks": [[6, 6], [6, 6]],
               "legacy": True, "want_sub_fp": True, "want_fp": True, "kind": "ramp", "const": None, "has_fill": False,
               "grid": [12, 12], "ws_wsm": 0.01, "persist": True, "probe_rows": 3,
               "history": [{"scale": 1.0, "shift": 0.0, "out_chunks": [[12], [12]], "mwm": False, "persist": True},
                           {"scale": 2.0, "shift": 1.0, "out_chunks": [[5, 7], [12]], "mwm": False, "persist": False}]})
    return sc


# the flipped area of the design round (fixed in /repo: 4d4897c8), kept as a regression case
def flipped_case():
    area = {"proj": {"proj": "laea", "lat_0": 50, "lon_0": 10, "ellps": "WGS84"}, "shape": [8, 10],
            "extent": [H(-3e5), H(3e5), H(3e5), H(-3e5)], "cls": "laea_flipy_design", "flipped": True}
    j, i = np.meshgrid(np.arange(10, dtype=float), np.arange(8, dtype=float))
    lon, lat = lonlat_of(area, j, i)
    c = dict(area)
    c.update({"lons": hex2(lon), "lats": hex2(lat), "fill": H(NAN), "malformed": False})
    return c


# ----------------------------------------------------------------------------------------------- oracles
def smin_eff(p, dask=False):
    wsm, wmin = f32(p["weight_sum_min"]), f32(p["weight_min"])
    s = wsm
    if not dask and wsm == -1.0:
        s = wmin
    if s <= 0.0:
        s = f32(1e-8)
    return s


def arr(l, shape=None):
    a = np.array([U(s) for s in l], dtype=float)
    return a.reshape(shape) if shape else a


def judge_ll2cr(case, o):
    """Property text: every pixel gets the column/row the area itself assigns (fill where PROJ fails); count = pixels within 1 cell."""
    fails = []
    if "error" in o:
        return [("C08.ll2cr.error", "ll2cr raised %s: %s" % (o["error"], o.get("msg")))]
    h, w = case["shape"]
    fill = U(case["fill"])
    x, y, cols, rows = arr(o["x"]), arr(o["y"]), arr(o["cols"]), arr(o["rows"])
    oc, orr, lc, lr = arr(o["own_c"]), arr(o["own_r"]), arr(o["ll_c"]), arr(o["ll_r"])
    sfx = ".flipped" if case.get("flipped") else ""
    lo = hi = 0
    for k in range(len(x)):
        if x[k] >= 1e30:
            if not (isfill(cols[k], fill) and isfill(rows[k], fill)):
                fails.append(("C08.ll2cr.fill", "pixel %d: projection failed (x=%r) but col,row = %r,%r, not the fill %r" % (k, x[k], cols[k], rows[k], fill)))
            continue
        if x[k] != x[k] or y[k] != y[k]:
            continue
        tol = 1e-9 * (1 + abs(oc[k]) + abs(orr[k]))
        if not (abs(cols[k] - oc[k]) <= tol and abs(rows[k] - orr[k]) <= tol):
            fails.append(("C08.ll2cr.area_map" + sfx, "pixel %d at x,y=%r,%r: ll2cr col,row=%r,%r but the area's own array coordinates are %r,%r"
                          % (k, x[k], y[k], cols[k], rows[k], oc[k], orr[k])))
        elif lc[k] == lc[k] and not (abs(cols[k] - lc[k]) <= 1e-5 * (1 + abs(lc[k])) and abs(rows[k] - lr[k]) <= 1e-5 * (1 + abs(lr[k]))):
            fails.append(("C08.ll2cr.area_map_lonlat" + sfx, "pixel %d: ll2cr col,row=%r,%r but area.get_array_coordinates_from_lonlat gives %r,%r"
                          % (k, cols[k], rows[k], lc[k], lr[k])))
        inside = -1 + tol <= oc[k] <= w + 1 - tol and -1 + tol <= orr[k] <= h + 1 - tol
        maybe = -1 - tol <= oc[k] <= w + 1 + tol and -1 - tol <= orr[k] <= h + 1 + tol
        lo += inside
        hi += maybe
    lr_ = o.get("layout_run")
    if lr_ is not None and "error" not in lr_:
        c2, r2 = arr(lr_["cols"]), arr(lr_["rows"])
        same = ((c2 == cols) | ((c2 != c2) & (cols != cols))) & ((r2 == rows) | ((r2 != r2) & (rows != rows)))
        if lr_["n"] != o["n"] or not same.all():
            k = int(np.nonzero(~same)[0][0]) if not same.all() else -1
            fails.insert(0, ("C08.ll2cr.layout", "lon/lat arrays in memory layout %r: ll2cr gives count %d and col,row %r,%r at pixel %d; the C-contiguous copy gives %d and %r,%r"
                             % (case.get("geo_layout"), lr_["n"], c2[k], r2[k], k, o["n"], cols[k], rows[k])))
    if not lo <= o["n"] <= hi:
        fails.append(("C08.ll2cr.count" + sfx, "ll2cr counts %d points in grid, the area's own coordinates put %d..%d within one cell" % (o["n"], lo, hi)))
    return fails[:3]


def cell_table(fp, data, dtype, shape_px):
    """cell -> list of (value as accumulated (binary32), weight), in scan order, from the footprint tables."""
    R, C = shape_px
    tab = {}
    flat = data.ravel()
    for k, ent in enumerate(fp):
        if ent is None:
            continue
        v = f32(flat[k])
        for rr, cc, wh, _ in ent:
            tab.setdefault((rr, cc), []).append((v, U(wh)))
    return tab


def coincides(l, fill, smin, mwm, slack=0.0):
    """A cell whose legitimately written weighted mean equals the (finite) fill value cannot be told from an empty cell:
    True iff the contributions reach the threshold and their mean is the fill value within the float32 bound."""
    if fill != fill or not l or mwm:
        return False
    W = sum(wt for _, wt in l)
    if W < smin * (1 - (len(l) + 2) * U24):
        return False
    S = sum(abs(v) * wt for v, wt in l)
    mean = sum(v * wt for v, wt in l) / W
    return abs(mean - fill) <= (2 * len(l) + 8) * U24 * (S / W) + slack + 1e-45


def judge_fornav(case, o, pfx="C08.fornav"):
    """Property text: each cell = fill or a weighted mean of valid inputs (bounded, constants preserved); max-weight: an input value."""
    fails = []
    h, w = case["grid"]
    fill = U(case["fill"])
    p = case["params"]
    mwm = case["mwm"]
    data = np.array([[U(s) for s in row] for row in case["data"]])
    if "error" in o:
        return [(pfx + ".error", "driver error %s" % o)], None
    tab = cell_table(o.get("fp") or [], data, case["dtype"], data.shape)
    one, ws = o["oneshot"], o["ws"]
    smin = smin_eff(p)
    # memory layout of the inputs must not matter: same values -> same grid as the run on a C-contiguous copy
    mk = o.get("oneshot_masked")
    if mk is not None and "error" not in one:
        if "error" in mk:
            return [(pfx + ".masked", "masked-array input: fornav raised %s (%s); the plain array with the same valid pixels works" % (mk["error"], mk.get("msg")))], tab
        ga, gb = arr(mk["out"], (h, w)), arr(one["out"], (h, w))
        same = (ga == gb) | ((ga != ga) & (gb != gb))
        msk = np.array(mk["mask"]).reshape(h, w)
        want = np.array([[isfill(v, fill) for v in row] for row in gb])
        if not same.all() or not mk["is_masked"] or (msk != want).any():
            bad = ~same | (msk != want)
            rr, cc = [int(v[0]) for v in np.nonzero(bad)] if bad.any() else (0, 0)
            return [(pfx + ".masked", "masked-array input (invalid pixels masked, stored value 12345): cell (%d,%d) = %r masked=%s; the plain array gives %r (fill %r)"
                     % (rr, cc, ga[rr, cc], msk[rr, cc], gb[rr, cc], fill))], tab
    for alt, lay, what in (("oneshot_c", case.get("layout"), "data"), ("oneshot_geo", case.get("geo_layout"), "cols/rows")):
        ref = o.get(alt)
        if ref is None:
            continue
        a_, b_ = (one, ref) if alt == "oneshot_c" else (ref, one)      # a_: run with the layout, b_: contiguous run
        if "error" in a_ and "error" not in b_ and what == "cols/rows" and a_["error"] in ("ValueError", "TypeError"):
            continue                                                     # non-contiguous geolocation is rejected cleanly
        if ("error" in a_) != ("error" in b_):
            return [(pfx + ".layout", "%s array in memory layout %r: fornav gives %s, the C-contiguous copy gives %s"
                     % (what, lay, a_.get("error", "a grid"), b_.get("error", "a grid")))], tab
        if "error" in a_:
            continue
        ga, gb = arr(a_["out"], (h, w)), arr(b_["out"], (h, w))
        same = (ga == gb) | ((ga != ga) & (gb != gb))
        if not same.all():
            rr, cc = [int(v[0]) for v in np.nonzero(~same)]
            vals = sorted(set(f32(v) for v in data.ravel() if v == v))
            return [(pfx + ".layout", "%s array handed over in memory layout %r (same values): cell (%d,%d) = %r, the run on a C-contiguous copy gives %r "
                     "(%d cells differ; valid inputs lie in [%r, %r])" % (what, lay, rr, cc, ga[rr, cc], gb[rr, cc], int((~same).sum()),
                                                                        vals[0] if vals else None, vals[-1] if vals else None))], tab
    if "error" in one:
        if one["error"] == "RuntimeError" and not tab:
            return fails, tab
        return [(pfx + ".error", "fornav raised %s (%s) although %d cells receive contributions" % (one["error"], one.get("msg"), len(tab)))], tab
    out = arr(one["out"], (h, w))
    sfx = ".fill_pixels" if case.get("has_fill") else ""
    nvalid = ncoinc = 0
    for rr in range(h):
        for cc in range(w):
            ov = out[rr, cc]
            l = tab.get((rr, cc), [])
            k = len(l)
            of = isfill(ov, fill)
            nvalid += (not of)
            if not l:
                if not of:
                    fails.append((pfx + ".invented_value" + sfx, "cell (%d,%d) = %r although no valid input pixel touches it" % (rr, cc, ov)))
                continue
            W = sum(wt for _, wt in l)
            lo, hi = min(v for v, _ in l), max(v for v, _ in l)
            if mwm:
                best = max(wt for _, wt in l)
                want = next(v for v, wt in l if wt == best)
                if best < smin:
                    ok = of
                else:
                    ok = (not of) and ov == want
                if not ok:
                    key = ".maxweight" if any(ov == v for v, _ in l) or of else ".maxweight_not_input"
                    fails.append((pfx + key + sfx, "cell (%d,%d) = %r, required %r (value of the first valid input with maximal weight %r; inputs %r)"
                                  % (rr, cc, ov, want if best >= smin else "fill", best, sorted(set(v for v, _ in l))[:6])))
                continue
            S = sum(abs(v) * wt for v, wt in l)
            mean = sum(v * wt for v, wt in l) / W
            tol = (2 * k + 8) * U24 * (S / W) + 1e-45
            near = abs(W - smin) <= (k + 2) * U24 * W
            if of:
                if coincides(l, fill, smin, mwm):
                    ncoinc += 1          # the written mean IS the fill value (e.g. -3 and 3 around fill 0): excluded, counted
                    continue
                if W >= smin and not near:
                    fails.append((pfx + ".missing_value" + sfx, "cell (%d,%d) is fill although the weights sum to %r >= %r" % (rr, cc, W, smin)))
                continue
            if W < smin and not near:
                fails.append((pfx + ".below_threshold" + sfx, "cell (%d,%d) = %r although the weights sum to %r < %r" % (rr, cc, ov, W, smin)))
                continue
            if not lo - tol <= ov <= hi + tol:
                fails.append((pfx + ".bounded" + sfx, "cell (%d,%d) = %r outside the range [%r, %r] of the %d valid inputs that reach it" % (rr, cc, ov, lo, hi, k)))
            elif abs(ov - mean) > tol:
                fails.append((pfx + ".mean" + sfx, "cell (%d,%d) = %r, weighted mean of its %d valid inputs is %r (tolerance %.3g)" % (rr, cc, ov, k, mean, tol)))
            elif case.get("const") is not None and abs(ov - f32(case["const"])) > tol:
                fails.append((pfx + ".constant" + sfx, "constant field %r gives %r at (%d,%d)" % (case["const"], ov, rr, cc)))
    if not nvalid <= one["n"] <= nvalid + ncoinc:
        fails.append((pfx + ".valid_count", "fornav reports %d valid cells, the grid has %d (+%d whose value coincides with the fill)" % (one["n"], nvalid, ncoinc)))
    case["_ncoinc"] = ncoinc
    if "error" not in ws:
        g2 = arr(ws["grid"], (h, w))
        same = (out == g2) | ((out != out) & (g2 != g2))
        if not same.all():
            rr, cc = [int(v[0]) for v in np.nonzero(~same)]
            fails.append((pfx + ".kernels_differ", "fornav and weights/sums + write_grid_image_single differ at (%d,%d): %r vs %r" % (rr, cc, out[rr, cc], g2[rr, cc])))
    return fails[:3], tab


def qeps(p, j=3):
    """Relative change of a table weight when the index moves by j entries."""
    return f32(p["weight_min"]) ** (-float(j) / (int(p["weight_count"]) - 1)) - 1.0


def judge_scene(case, o):
    if "error" in o:
        return [("C08.scene.error", "driver error %s: %s" % (o["error"], o.get("msg")))], {}
    fails, tab = judge_fornav(case, o["fornav"])
    info = {"edge_cells": 0, "dropped_reach": False}
    h, w = case["grid"]
    fill = U(case["fill"])
    p = case["params"]
    data = np.array([[U(s) for s in row] for row in case["data"]])
    R, C = data.shape
    one = o["fornav"]["oneshot"]
    dk = o["dask"]
    # input chunks are scan aligned
    nc = o.get("new_chunks")
    if isinstance(nc, list):
        if nc[0] % case["rps"] != 0 or nc[0] < case["rps"] or nc[1] != C:
            fails.append(("C08.dask.scan_alignment", "_new_chunks gives row chunk %d, column chunk %d for rows_per_scan=%d, %d columns" % (nc[0], nc[1], case["rps"], C)))
    elif isinstance(nc, dict):
        fails.append(("C08.dask.scan_alignment", "_new_chunks raised %s" % nc))
    pr = o.get("dask_plain_rps")
    if pr is not None and "error" not in pr:
        if "error" in dk:
            fails.append(("C08.dask.rows_per_scan", "geolocation attrs rows_per_scan=%r, keyword rows_per_scan=%r: DaskEWAResampler raised %s: %s; without attrs and rows_per_scan=%d it works"
                          % (case.get("attr_rps"), case.get("rps_kw"), dk["error"], dk.get("msg"), case["rps"])))
            return fails, info
        qa, qb = arr(dk["out"], (h, w)), arr(pr["out"], (h, w))
        same = (qa == qb) | ((qa != qa) & (qb != qb))
        if not same.all() and case.get("layout", "c") == "c" and case.get("geo_layout", "c") == "c":
            rr, cc = [int(v[0]) for v in np.nonzero(~same)]
            fails.insert(0, ("C08.dask.rows_per_scan", "geolocation attrs rows_per_scan=%r and keyword rows_per_scan=%r (scan size %d): cell (%d,%d) = %r, the same request without attrs and rows_per_scan=%d "
                             "gives %r (%d cells differ)" % (case.get("attr_rps"), case.get("rps_kw"), case["rps"], rr, cc, qa[rr, cc], case["rps"], qb[rr, cc], int((~same).sum()))))
    nr_ = o.get("dask_no_rps")
    if nr_ is not None and "error" not in nr_:
        fails.append(("C08.dask.rows_per_scan.missing", "neither the geolocation attrs nor the keyword give rows_per_scan, yet DaskEWAResampler returns a grid instead of raising"))
    np_ = o.get("dask_nopersist")
    if np_ is not None and "error" not in np_:
        if "error" in dk:
            fails.append(("C08.dask.persist", "persist=True: DaskEWAResampler raised %s: %s; persist=False works (placeholders %s)" % (dk["error"], dk.get("msg"), o.get("placeholders"))))
            return fails, info
        pa, pb = arr(dk["out"], (h, w)), arr(np_["out"], (h, w))
        if not ((pa == pb) | ((pa != pa) & (pb != pb))).all() and case.get("layout", "c") == "c" and case.get("geo_layout", "c") == "c":
            fails.append(("C08.dask.persist", "persist=True and persist=False give different grids (placeholders %s)" % o.get("placeholders")))
    for ci, ent in enumerate(o.get("history") or []):
        if "error" in ent:
            continue
        sa, fr = ent["same"], ent["fresh"]
        if ("error" in sa) != ("error" in fr):
            fails.append(("C08.dask.history", "call %d on a reused resampler: %s, on a fresh resampler: %s (calls %s)" % (ci, sa.get("error", "a grid"), fr.get("error", "a grid"), case["history"])))
        elif "error" not in sa:
            ha, hb = arr(sa["out"], (h, w)), arr(fr["out"], (h, w))
            if not ((ha == hb) | ((ha != ha) & (hb != hb))).all():
                fails.append(("C08.dask.history", "call %d on a reused resampler differs from the same call on a fresh resampler (calls %s)" % (ci, case["history"])))
    if "error" in dk:
        lay = o.get("dask_c") is not None and "error" not in o["dask_c"]
        fails.append(("C08.dask.layout" if lay else "C08.dask.error", "DaskEWAResampler raised %s: %s%s" % (dk["error"], dk.get("msg"),
                      " (data layout %r, lon/lat layout %r; C-contiguous copies work)" % (case.get("layout"), case.get("geo_layout")) if lay else "")))
        return fails, info
    dout = arr(dk["out"], (h, w))
    dkc = o.get("dask_c")
    if dkc is not None and "error" not in dkc:
        dc = arr(dkc["out"], (h, w))
        same = (dout == dc) | ((dout != dout) & (dc != dc))
        if not same.all():
            rr, cc = [int(v[0]) for v in np.nonzero(~same)]
            return [("C08.dask.layout", "data in memory layout %r, lon/lat in %r (same values): DaskEWAResampler cell (%d,%d) = %r, with C-contiguous copies %r (%d cells differ)"
                     % (case.get("layout"), case.get("geo_layout"), rr, cc, dout[rr, cc], dc[rr, cc], int((~same).sum())))] + fails, info
    oout = arr(one["out"], (h, w)) if "error" not in one else np.full((h, w), fill)
    if o.get("legacy") and "out" in o["legacy"] and "error" not in one:
        lg = arr(o["legacy"]["out"], (h, w))
        if not ((lg == oout) | ((lg != lg) & (oout != oout))).all():
            fails.append(("C08.legacy.vs_oneshot", "LegacyDaskEWAResampler differs from one-shot ll2cr+fornav"))
    in_rows = case["in_rows"]
    starts = list(range(0, R, in_rows))
    fp = o["fornav"].get("fp") or []
    # cells reached by valid pixels of input chunks that were replaced by a placeholder (known finding)
    tainted = set()
    for ci, ph in enumerate(o["placeholders"]):
        if not ph:
            continue
        for k in range(starts[ci] * C, min(R, starts[ci] + in_rows) * C):
            if fp and fp[k]:
                for rr, cc, _, _ in fp[k]:
                    tainted.add((rr, cc))
    info["dropped_reach"] = bool(tainted)
    # H_cov measured: sub-grid tables vs the full-grid table restricted and renumbered
    eq, edge = qeps(p), set()
    wmin_tab = f32(p["weight_min"])
    for blk in o.get("sub", []):
        y0, x0, nr, nc = blk["y0"], blk["x0"], blk["nr"], blk["nc"]
        for ci, ent in enumerate(blk["in"]):
            if "fp" not in ent:
                continue
            for kk, sfp in enumerate(ent["fp"]):
                k = starts[ci] * C + kk
                full = {(rr - y0, cc - x0): U(wh) for rr, cc, wh, _ in (fp[k] or []) if y0 <= rr < y0 + nr and x0 <= cc < x0 + nc}
                sub = {(rr, cc): U(wh) for rr, cc, wh, _ in (sfp or [])}
                for cell in set(full) | set(sub):
                    a, b = full.get(cell), sub.get(cell)
                    if a is not None and b is not None:
                        if not (a / (1 + eq) <= b <= a * (1 + eq)):
                            fails.append(("C08.dask.footprint_covariance", "pixel %d weighs %r on cell %r of the full grid but %r on the same cell of output chunk (y0=%d,x0=%d)"
                                          % (k, a, (cell[0] + y0, cell[1] + x0), b, y0, x0)))
                    else:
                        wv = a if a is not None else b
                        if wv <= wmin_tab * (1 + eq) ** 2:      # contribution at the rim of the ellipse flips
                            edge.add((cell[0] + y0, cell[1] + x0))
                        else:
                            fails.append(("C08.dask.footprint_covariance", "pixel %d touches cell %r with weight %r only in the %s run (output chunk y0=%d,x0=%d)"
                                          % (k, (cell[0] + y0, cell[1] + x0), wv, "full-grid" if a is not None else "sub-grid", y0, x0)))
    info["edge_cells"] = len(edge)
    # an explicit fill_value (incl. the falsy 0 / 0.0) must be the value written to empty cells and the value that marks invalid input
    dflt = 127.0 if case["dtype"] == "i1" else NAN
    if not case.get("dask_fill_default") and not isfill(fill, dflt) and "error" not in one:
        wrong = [(rr, cc) for rr in range(h) for cc in range(w) if isfill(oout[rr, cc], fill) and not isfill(dout[rr, cc], fill) and isfill(dout[rr, cc], dflt)]
        if wrong:
            rr, cc = wrong[0]
            fails.insert(0, ("C08.dask.fill_value", "fill_value=%r passed explicitly: DaskEWAResampler writes the default fill %r to %d empty cells, e.g. (%d,%d); one-shot ll2cr+fornav(fill=%r) writes %r"
                             % (fill, dout[rr, cc], len(wrong), rr, cc, fill, oout[rr, cc])))
    # the property: dask == one-shot up to float32 accumulation (+ weight table quantisation)
    smin1, smin2 = smin_eff(p), smin_eff(p, dask=True)
    nbad = 0
    for rr in range(h):
        for cc in range(w):
            a, b = oout[rr, cc], dout[rr, cc]
            fa, fb = isfill(a, fill), isfill(b, fill)
            l = (tab or {}).get((rr, cc), [])
            if (fa or fb) and l and coincides(l, fill, min(smin1, smin2), case["mwm"], slack=4 * eq * (max(v for v, _ in l) - min(v for v, _ in l))):
                fa = fb = False      # a written mean that coincides with the finite fill value: compare as values
            if (rr, cc) in edge and not case["mwm"]:
                continue
            key = "C08.dask.dropped_chunk.footprint_beyond_margin" if (rr, cc) in tainted else "C08.dask.vs_oneshot"
            if fa != fb:
                W = sum(wt for _, wt in l)
                if l and (abs(W - smin1) <= 4 * eq * W or abs(W - smin2) <= 4 * eq * W):
                    continue
                nbad += 1
                fails.append((key + (".fill" if key.endswith("oneshot") else ""), "cell (%d,%d): one-shot %r, DaskEWAResampler %r (in_rows=%d, out chunks %s)"
                              % (rr, cc, a, b, in_rows, case["out_chunks"])))
                continue
            if fa:
                continue
            if case["mwm"]:
                ok = a == b or (rr, cc) in edge
                tol = 0.0
            else:
                lo, hi = (min(v for v, _ in l), max(v for v, _ in l)) if l else (0.0, 0.0)
                tol = 2 * eq * (hi - lo) + (2 * len(l) + 8) * U24 * max(abs(lo), abs(hi)) * 2
                ok = abs(a - b) <= tol
            if not ok:
                nbad += 1
                fails.append((key, "cell (%d,%d): one-shot %r, DaskEWAResampler %r, |diff| %.3g > %.3g (in_rows=%d, out chunks %s)"
                              % (rr, cc, a, b, abs(a - b), tol, in_rows, case["out_chunks"])))
    # keep one failure per key
    seen, outl = set(), []
    for k, wh in fails:
        if k not in seen:
            seen.add(k)
            outl.append((k, wh))
    return outl, info


def judge_wgrid(case, o):
    return []      # write_grid_image_single on explicit arrays is judged by the Coq correspondence only


# ----------------------------------------------------------------------------------------------- Coq text
HDR = ("From Coq Require Import ZArith List Bool PrimFloat QArith.\n"
       "From PR Require Import Base.Num Base.F64 Base.ListX Model.Grid Model.EWA Model.C08_run.\n"
       "Import ListNotations.\nOpen Scope Z_scope.\n")


def coq_area(c):
    h, w = c["shape"]
    x0, y0, x1, y1 = [U(s) for s in c["extent"]]
    return "(mk_area %s %s %s %s %d %d)" % (fh(x0), fh(y0), fh(x1), fh(y1), w, h)


def coq_ll2cr(case, o):
    pts = ["((%s, %s), (%s, %s))" % (fh(U(a)), fh(U(b)), fh(U(c)), fh(U(d))) for a, b, c, d in zip(o["x"], o["y"], o["cols"], o["rows"])]
    return "(%s, %s, [%s], %d)" % (coq_area(case), fh(U(case["fill"])), "; ".join(pts), o["n"])


def coq_pixels(data, fp, fill, only=None):
    px = []
    flat = data.ravel()
    for k, v in enumerate(flat):
        if only is not None and not (only[0] <= k < only[1]):
            continue
        ent = fp[k] if k < len(fp) else None
        if ent is None or v != v or v == fill:
            px.append("mkpx None []")
        else:
            px.append("mkpx (Some %s) [%s]" % (qd(v), "; ".join("(%d, %d, %s)" % (rr, cc, qd(U(wh))) for rr, cc, wh, _ in ent)))
    return px


def coq_fcase(case, o, tab):
    h, w = case["grid"]
    fill = U(case["fill"])
    data = np.array([[U(s) for s in row] for row in case["data"]])
    px = coq_pixels(data, o["fp"], fill)
    ws = o["ws"]
    Wi, Ai, out = arr(ws["weights"], (h, w)), arr(ws["accums"], (h, w)), arr(o["oneshot"]["out"], (h, w))
    cells = []
    extra = 0
    for rr in range(h):
        for cc in range(w):
            touched = (rr, cc) in tab or Wi[rr, cc] != 0 or not isfill(out[rr, cc], fill)
            if not touched:
                extra += 1
                if extra > 12:
                    continue
            ov = out[rr, cc]
            a = Ai[rr, cc]
            cells.append("(%d, %d, %s, %s, %s)" % (rr, cc, qd(Wi[rr, cc]), qd(a if a == a else 0.0),
                                                  "None" if isfill(ov, fill) and not coincides(tab.get((rr, cc), []), fill, smin_eff(case["params"]), case["mwm"])
                                                  else "Some %s" % qd(ov)))
    p = case["params"]
    return "mk_fcase %s %s %s [%s] [%s]" % ("true" if case["mwm"] else "false", qd(f32(p["weight_sum_min"])), qd(f32(p["weight_min"])),
                                            ";\n ".join(px), "; ".join(cells)), len(cells)


def coq_dcases(case, o, tab=None):
    """One dcase per output block: per input chunk the placeholder flag and the sub-grid footprint tables."""
    fill = U(case["fill"])
    h, w = case["grid"]
    data = np.array([[U(s) for s in row] for row in case["data"]])
    R, C = data.shape
    in_rows = case["in_rows"]
    starts = list(range(0, R, in_rows))
    dout = arr(o["dask"]["out"], (h, w))
    res = []
    for blk in o["sub"]:
        y0, x0, nr, nc = blk["y0"], blk["x0"], blk["nr"], blk["nc"]
        chunks = []
        for ci, ent in enumerate(blk["in"]):
            dd = data[starts[ci]:starts[ci] + in_rows]
            px = coq_pixels(dd, ent.get("fp") or [], fill)
            chunks.append("(%s, [%s])" % ("true" if ent["empty"] else "false", ";\n  ".join(px)))
        sm = smin_eff(case["params"], dask=True)
        cells = ["(%d, %d, %s)" % (rr, cc, "None" if isfill(dout[y0 + rr, x0 + cc], fill)
                                   and not coincides((tab or {}).get((y0 + rr, x0 + cc), []), fill, sm, case["mwm"]) else "Some %s" % qd(dout[y0 + rr, x0 + cc]))
                 for rr in range(nr) for cc in range(nc)]
        res.append("mk_dcase %s %s [%s] [%s]" % ("true" if case["mwm"] else "false", qd(f32(case["params"]["weight_sum_min"])),
                                                 ";\n ".join(chunks), "; ".join(cells)))
    return res


def coq_wgrid(case, o):
    wsm = qd(f32(case["weight_sum_min"]))
    mw = "true" if case["mwm"] else "false"
    W = [U(s) for s in case["weights"]]
    A = [U(s) for s in case["accums"]]
    if case["dtype"] == "i1":
        cells = ["(%s, %s, %d)" % (qd(a), qd(b), c) for a, b, c in zip(W, A, o["out"]) if b == b]
        return "i", "(%s, %s, %d, [%s])" % (mw, wsm, case["fill"], "; ".join(cells))
    fill = U(case["fill"])
    cells = ["(%s, %s, %s)" % (qd(a), qd(b), "None" if isfill(U(c), fill) else "Some %s" % qd(U(c))) for a, b, c in zip(W, A, o["out"]) if b == b]
    return "f", "(%s, %s, [%s])" % (mw, wsm, "; ".join(cells))


def safe_append(ctx, dest, what, fn, *args, extend=False):
    """Build the Coq text of a case; an output that is neither the fill nor a finite number cannot be transmitted."""
    try:
        v = fn(*args)
    except (ValueError, OverflowError) as e:
        ctx.broken.append(("correspondence:" + what, "implementation output is neither the fill value nor a finite number (%s)" % e))
        return
    (dest.extend if extend else dest.append)(v)


def shard(items, n):
    out = [[] for _ in range(n)]
    for i, it in enumerate(items):
        out[i % n].append(it)
    return [s for s in out if s]


# ----------------------------------------------------------------------------------------------- compiled kernel
def build_fornav(ctx):
    """Out-of-tree g++ build of pyresample.ewa._fornav from the current _fornav.cpp (Cython output, Cython itself is not
    installed) + _fornav_templates.cpp/.h, cached by content hash.  Returns the path of the module or None."""
    import fcntl
    import hashlib
    import subprocess
    import sysconfig
    from .common import REPO, BUILD
    src = [os.path.join(REPO, "pyresample", "ewa", f) for f in ("_fornav.cpp", "_fornav_templates.cpp", "_fornav_templates.h")]
    if not os.path.exists(src[0]):
        # _fornav.cpp is Cython output and not tracked by git: a scratch worktree has none; the one of /repo wraps the same .pyx
        src[0] = "/repo/pyresample/ewa/_fornav.cpp"
        if not os.path.exists(src[0]):
            ctx.notes.append("no Cython-generated _fornav.cpp available: the shipped _fornav extension module is exercised as it is")
            return None
    try:
        hsh = hashlib.sha1(b"".join(open(f, "rb").read() for f in src)).hexdigest()[:16]
    except OSError as e:
        ctx.broken.append(("build:_fornav", "cannot read the kernel sources: %s" % e))
        return None
    d = os.path.join(BUILD, "ext", "C08", hsh)
    so = os.path.join(d, "_fornav" + sysconfig.get_config_var("EXT_SUFFIX"))
    os.makedirs(d, exist_ok=True)
    with open(os.path.join(BUILD, "ext", "C08", ".lock"), "w") as lk:
        fcntl.flock(lk, fcntl.LOCK_EX)
        if not os.path.exists(so):
            cmd = ["timeout", "600", "g++", "-O2", "-fPIC", "-shared", "-std=c++11", "-w", "-DNPY_NO_DEPRECATED_API=NPY_1_7_API_VERSION",
                   "-I" + sysconfig.get_paths()["include"], "-I" + np.get_include(), "-I" + os.path.dirname(src[2]), src[0], src[1], "-o", so + ".tmp"]
            p = subprocess.run(cmd, capture_output=True, text=True)
            if p.returncode != 0:
                ctx.broken.append(("build:_fornav", "g++ cannot build the EWA kernel from the current sources: " + p.stderr[-500:]))
                return None
            os.replace(so + ".tmp", so)
            ctx.notes.append("rebuilt pyresample.ewa._fornav from source (hash %s)" % hsh)
    ctx.checker_cmds.append("g++ -O2 -shared _fornav.cpp _fornav_templates.cpp -> build/ext/C08/%s (pre-loaded as pyresample.ewa._fornav)" % hsh)
    return so


# ----------------------------------------------------------------------------------------------- run
def run_impl(ctx, payload, nshards=10, so=None):
    """Run the driver on interleaved shards of the case lists in parallel; results in the original order."""
    res = {k: [None] * len(payload[k]) for k in payload}

    def one(i):
        sub = {k: payload[k][i::nshards] for k in payload if payload[k][i::nshards]}
        return i, (ctx.impl("c08", sub, extra_env={"C08_FORNAV_SO": so} if so else None) if sub else {})
    with ThreadPoolExecutor(max_workers=nshards) as ex:
        for i, outd in ex.map(one, range(nshards)):
            for k, outl in outd.items():
                res[k][i::nshards] = outl
    return res


def run(ctx):
    r = ctx.rng
    t0 = time.time()
    ctx.rule = ("PRNG cases from VERIF_SEED: (a) ll2cr on 9 CRS families x random areas (dyadic / general pixel sizes, flipped y 30%, flipped x 10%) with "
                "lattice swaths, +-1-cell margin seekers and a malformed stream (NaN, 1e30, lat 95, inf, far points); (b) fornav on synthetic col/row "
                "fields (spacing 0.45..3 cells, rotation, curvature, NaN geolocation), float32/float64/int8 data (smooth, noise, constant, integer, wide; fill NaN, 0, -999, 255 / int8 0, -128, 127, -1; "
                "NaN / fill pixels; handed over C-contiguous or as strided views into larger arrays, Fortran-ordered, transposed-back, negative strides), rows_per_scan dividing the rows, weight parameters, average and maximum-weight mode; (c) scenes = area + lon/lat "
                "swath + data run one-shot and through DaskEWAResampler for scan-aligned input chunkings and random output chunk partitions (plus the "
                "legacy resampler), with rows_per_scan given by keyword, by the lon/lat attrs, or by attrs AND a different explicit keyword (another divisor, 0 = whole swath) on real scan geometry, with fill_value left at None or passed explicitly (NaN, 0.0, -1, -999; int8 0, -128, 127, -1), persist=True/False and, for some, a history of 2-3 resample() calls on ONE resampler object (each compared with a fresh "
                "object), incl. the known-finding scene and the flipped design-round area; (d) write_grid_image_single on explicit arrays "
                "(float and int8 grids). A case is non-trivial when at least one grid cell receives >= 2 valid contributions (fornav/scene), at least "
                "one pixel is counted in the grid (ll2cr), or a non-fill cell is written (wgrid); distinct = distinct inputs")
    n_ll = ctx.n(40, 500)
    n_fn = ctx.n(36, 500)
    n_sc = ctx.n(14, 200)
    ll_cases = [flipped_case()] + [gen_ll2cr_case(r, big=(i % 12 == 0)) for i in range(n_ll)]
    fn_cases = [gen_fornav_case(r, big=(i % 18 == 17)) for i in range(n_fn)]
    sc_cases = [known_scene()] + [gen_scene(r, big=(i % 14 == 13), dropped=(i % 7 == 3), many_chunks=(i % 5 == 1),
                                            force_mwm=(True if i % 4 == 2 else None)) for i in range(n_sc)]
    wg_cases = [gen_wgrid(r) for _ in range(ctx.n(30, 400))]
    # every scene also is an ll2cr case
    for sc in sc_cases:
        c = {k: sc[k] for k in ("proj", "shape", "extent", "cls", "flipped", "lons", "lats")}
        c.update({"fill": H(NAN), "malformed": False, "from_scene": True})
        ll_cases.append(c)
    so = build_fornav(ctx)
    obs = run_impl(ctx, {"ll2cr": ll_cases, "fornav": fn_cases, "scene": sc_cases, "wgrid": wg_cases}, so=so)
    ctx.notes.append("implementation runs: %.1fs" % (time.time() - t0))

    texts = []
    # ---- ll2cr
    L = []
    for case, o in zip(ll_cases, obs["ll2cr"]):
        fails = judge_ll2cr(case, o)
        nt = "error" not in o and o["n"] > 0
        ctx.case(("ll", case["extent"], case["shape"], case["lons"][0][:3], len(case["lons"])), nontrivial=nt,
                 sample={"ll2cr_area": case["cls"], "shape": case["shape"], "extent": [U(s) for s in case["extent"]], "points": len(case["lons"]) * len(case["lons"][0]),
                         "in_grid": o.get("n"), "lonlat_layout": case.get("geo_layout", "c"), "malformed": bool(case.get("malformed"))})
        ctx.count("ll2cr:" + case["cls"].split("_")[0])
        if case.get("flipped"):
            ctx.count("ll2cr:flipped")
        if case.get("malformed"):
            ctx.count("ll2cr:malformed")
        if case.get("geo_layout", "c") != "c":
            ctx.count("ll2cr:layout_" + ("rejected_" + o["layout_run"]["error"] if "error" in (o.get("layout_run") or {}) else "accepted"))
        for key, what in fails:
            ctx.add_failure(key, what, {"oracle": "ll2cr", "case": case})
        if "error" not in o:
            L.append(coq_ll2cr(case, o))
    for i, sh in enumerate(shard(L, ctx.n(4, 12))):
        texts.append(("c08_ll2cr_%d" % i, HDR + "From PR Require Import Model.C08_rungen.\nDefinition cases : list ll_case := [%s].\n"
                      "Eval vm_compute in (bad (fun c => chk_ll2cr c && chk_ll2cr_gen c) cases).\n" % ";\n".join(sh), sh, "ll2cr"))

    # ---- fornav (synthetic) and scenes
    F = []
    for case, o in zip(fn_cases, obs["fornav"]):
        fails, tab = judge_fornav(case, o)
        multi = bool(tab) and max(len(v) for v in tab.values()) >= 2
        ctx.case(("fn", case["cols"][0][:2], case["data"][0][:2], case["grid"], case["rps"], case["mwm"], repr(case["params"])), nontrivial=multi,
                 sample={"fornav_swath": [len(case["cols"]), len(case["cols"][0])], "grid": case["grid"], "dtype": case["dtype"], "mwm": case["mwm"],
                         "rps": case["rps"], "params": case["params"], "cells_touched": len(tab or {}), "data": case["kind"],
                         "data_layout": case.get("layout", "c"), "colrow_layout": case.get("geo_layout", "c"), "masked_input": bool(case.get("masked")),
                         "fill": U(case["fill"]) if U(case["fill"]) == U(case["fill"]) else "nan"})
        ctx.count("fornav:" + ("mwm" if case["mwm"] else "avg") + ":" + case["dtype"])
        ctx.count("fornav:data_" + case["kind"])
        if case["has_fill"]:
            ctx.count("fornav:fill_pixels")
        if case["geo"] != "plain":
            ctx.count("fornav:" + case["geo"])
        if case.get("masked"):
            ctx.count("fornav:masked_array_input")
        if case.get("_ncoinc"):
            ctx.count("fornav:cells_excluded_value_coincides_with_fill", case.pop("_ncoinc"))
        case.pop("_ncoinc", None)
        ctx.count("fornav:data_layout_" + case.get("layout", "c"))
        if case.get("geo_layout", "c") != "c":
            ctx.count("fornav:geoloc_layout_" + ("rejected" if "error" in (o.get("oneshot_geo") or {}) else "accepted"))
        if tab and case["params"]["weight_sum_min"] == -1.0 and min(wt for l in tab.values() for _, wt in l) < smin_eff(case["params"]):
            ctx.count("H_thresh:default_threshold_table_weight_below_weight_min")
        for key, what in fails:
            ctx.add_failure(key, what, {"oracle": "fornav", "case": case})
        if "error" not in o and "error" not in o["oneshot"] and "error" not in o["ws"]:
            safe_append(ctx, F, "fornav_accumulate", coq_fcase, case, o, tab or {})
    D, DR, BL, RP, IT = [], [], [], [], []
    for case, o in zip(sc_cases, obs["scene"]):
        fails, info = judge_scene(case, o)
        ok = "error" not in o
        tab = None
        if ok:
            _, tab = judge_fornav(case, o["fornav"])
        multi = bool(tab) and max(len(v) for v in tab.values()) >= 2
        ctx.case(("sc", case["extent"], case["shape"], case["lons"][0][:2], case["in_rows"], repr(case["out_chunks"]), case["mwm"]), nontrivial=multi,
                 sample={"scene_area": case["cls"], "grid": case["grid"], "swath": [len(case["lons"]), len(case["lons"][0])], "rps": case["rps"],
                         "in_rows": case["in_rows"], "out_chunks": case["out_chunks"], "mwm": case["mwm"], "dtype": case["dtype"], "fill_value": ("None (default)" if case.get("dask_fill_default") else repr(U(case["fill"]))),
                         "placeholders": o.get("placeholders"), "rows_per_scan_attr": case.get("attr_rps"), "rows_per_scan_keyword": case.get("rps_kw"), "persist": bool(case.get("persist")), "history_calls": len(case.get("history") or []),
                         "legacy": bool(case.get("legacy")), "data_layout": case.get("layout", "c"), "lonlat_layout": case.get("geo_layout", "c")})
        ctx.count("scene:" + ("mwm" if case["mwm"] else "avg") + ":" + case["dtype"])
        ctx.count("scene:in_chunks=%d" % math.ceil(len(case["lons"]) / case["in_rows"]))
        ctx.count("scene:out_blocks=%d" % (len(case["out_chunks"][0]) * len(case["out_chunks"][1])))
        if ok and any(o["placeholders"]):
            ctx.count("scene:placeholder_chunk")
        if case.pop("_ncoinc", 0):
            ctx.count("scene:has_cells_whose_value_coincides_with_fill")
        fv = U(case["fill"])
        ctx.count("scene:fill_" + ("default_none" if case.get("dask_fill_default") else "nan_explicit" if fv != fv else "zero" if fv == 0 else "other_explicit"))
        ctx.count("scene:rows_per_scan_from_" + case.get("rps_mode", "keyword"))
        ctx.count("scene:persist=%s" % bool(case.get("persist")))
        if case.get("history"):
            ctx.count("scene:history_calls", len(case["history"]))
        if case.get("legacy"):
            ctx.count("scene:legacy_resampler")
        ctx.count("scene:data_layout_" + case.get("layout", "c"))
        ctx.count("scene:lonlat_layout_" + case.get("geo_layout", "c"))
        if info.get("dropped_reach"):
            ctx.count("scene:dropped_chunk_reaches_grid")
        if info.get("edge_cells"):
            ctx.count("scene:rim_weight_flips", info["edge_cells"])
        for key, what in fails:
            ctx.add_failure(key, what, {"oracle": "scene", "case": case})
        if not ok or "error" in o["dask"]:
            continue
        fo = o["fornav"]
        if "error" not in fo["oneshot"] and "error" not in fo["ws"]:
            safe_append(ctx, F, "fornav_accumulate", coq_fcase, case, fo, tab or {})
        if o.get("sub"):
            safe_append(ctx, D, "dask_reduction", coq_dcases, case, o, tab or {}, extend=True)
        # placeholders decided by the ll2cr model; block layout
        R, C = len(case["lons"]), len(case["lons"][0])
        xs, ys = o["ll2cr"]["x"], o["ll2cr"]["y"]
        for ci, s in enumerate(range(0, R, case["in_rows"])):
            pts = ["(%s, %s)" % (fh(U(a)), fh(U(b))) for a, b in zip(xs[s * C:(s + case["in_rows"]) * C], ys[s * C:(s + case["in_rows"]) * C])]
            DR.append("(%s, [%s], %s)" % (coq_area(case), "; ".join(pts), "true" if o["placeholders"][ci] else "false"))
        oz = lambda v: "None" if v is None else "(Some (%d))" % v
        for kwv, attr, nrows, got in o.get("get_rps", []):
            if isinstance(got, str):
                ctx.broken.append(("correspondence:rows_per_scan", "_get_rows_per_scan(%r) with attrs %r raised %s" % (kwv, attr, got)))
            else:
                RP.append("(%s, %s, %d, %s)" % (oz(kwv), oz(attr), nrows, oz(got)))
        for raw in o.get("tasks_raw", []):
            if not raw["ok"]:
                ctx.broken.append(("correspondence:dask_tasks", "a task tuple does not carry _delayed_fornav / the target area / the input name"))
            IT.append("(%s, %s, [%s], [%s])" % ("[" + "; ".join(map(str, case["out_chunks"][0])) + "]", "[" + "; ".join(map(str, case["out_chunks"][1])) + "]",
                                             "; ".join("(%d, %d, %d)" % tuple(b) for b in raw["blocks"]),
                                             "; ".join("(%d, %d, %d, (%d, %d), (%d, %d), (%d, %d), %d)" % tuple(it) for it in raw["items"])))
        blocks = sorted(set((t[1], t[2], t[3], t[4], t[5], t[6]) for t in o["tasks"]))
        nin = len(o["placeholders"])
        full = len(o["tasks"]) == nin * len(blocks) and sorted(set(t[0] for t in o["tasks"])) == list(range(nin))
        if not full:
            ctx.broken.append(("correspondence:dask_tasks", "task list is not (input chunk) x (output block): %s" % o["tasks"][:6]))
        BL.append("(%s, %s, [%s])" % ("[" + "; ".join(map(str, case["out_chunks"][0])) + "]", "[" + "; ".join(map(str, case["out_chunks"][1])) + "]",
                                      "; ".join("(%d, %d, (%d, %d), (%d, %d))" % b for b in blocks)))
    # balance shards by size
    F.sort(key=lambda t: -len(t[0]))
    nsh = ctx.n(12, 16)
    for i, sh in enumerate(shard(F, nsh)):
        texts.append(("c08_fornav_%d" % i, HDR + "Definition cases : list fcase := [%s].\nEval vm_compute in (bad chk_fornav cases).\n"
                      % ";\n".join(t for t, _ in sh), sh, "fornav_accumulate"))
    D.sort(key=lambda t: -len(t))
    for i, sh in enumerate(shard(D, ctx.n(8, 16))):
        texts.append(("c08_dask_%d" % i, HDR + "Definition cases : list dcase := [%s].\nEval vm_compute in (bad chk_dask cases).\n" % ";\n".join(sh), sh, "dask_reduction"))
    if DR:
        texts.append(("c08_dropped", HDR + "Definition cases : list (area float * list (float * float) * bool) := [%s].\nEval vm_compute in (bad chk_dropped cases).\n"
                      % ";\n".join(DR), DR, "dask_placeholder"))
    if RP:
        RP = sorted(set(RP))
        texts.append(("c08_rps", HDR + "From PR Require Import Model.C08_rungen.\nDefinition cases : list (option Z * option Z * Z * option Z) := [%s].\n"
                      "Eval vm_compute in (bad (fun c => chk_rps c && chk_imp_rps c) cases).\n" % ";\n".join(RP), RP, "rows_per_scan"))
    if IT:
        IT = sorted(set(IT), key=len)
        for i, sh in enumerate(shard(IT, 2)):
            texts.append(("c08_imp_tasks_%d" % i, HDR + "From PR Require Import Model.C08_rungen.\nDefinition cases : list (list Z * list Z * list (Z * Z * Z) * list task_item) := [%s].\n"
                          "Eval vm_compute in (bad chk_imp_tasks cases).\n" % ";\n".join(sh), sh, "dask_tasks_generated"))
    if BL:
        texts.append(("c08_blocks", HDR + "Definition cases : list (list Z * list Z * list (Z * Z * (Z * Z) * (Z * Z))) := [%s].\nEval vm_compute in (bad chk_blocks cases).\n"
                      % ";\n".join(BL), BL, "dask_blocks"))
    # ---- write_grid_image_single
    WF, WI = [], []
    for case, o in zip(wg_cases, obs["wgrid"]):
        written = "error" not in o and o["n"] > 0
        ctx.case(("wg", tuple(case["weights"]), tuple(case["accums"]), case["dtype"], case["weight_sum_min"], case["mwm"]), nontrivial=written,
                 sample={"wgrid_dtype": case["dtype"], "cells": len(case["weights"]), "weight_sum_min": case["weight_sum_min"], "mwm": case["mwm"], "written": o.get("n")})
        ctx.count("wgrid:" + case["dtype"])
        if "error" in o:
            ctx.broken.append(("correspondence:write_grid", "driver error %s" % o))
            continue
        try:
            kind, txt = coq_wgrid(case, o)
        except (ValueError, OverflowError) as e:
            ctx.broken.append(("correspondence:write_grid", "output is neither the fill value nor a finite number (%s)" % e))
            continue
        (WI if kind == "i" else WF).append(txt)
    if WF:
        texts.append(("c08_wfloat", HDR + "Definition cases : list (bool * Q * list (Q * Q * option Q)) := [%s].\nEval vm_compute in (bad chk_wfloat cases).\n" % ";\n".join(WF), WF, "write_grid_float"))
    if WI:
        texts.append(("c08_wint8", HDR + "Definition cases : list (bool * Q * Z * list (Q * Q * Z)) := [%s].\nEval vm_compute in (bad chk_wint8 cases).\n" % ";\n".join(WI), WI, "write_grid_int8"))

    t1 = time.time()
    res = ctx.coq_eval_many([(n, t) for n, t, _, _ in texts])
    ctx.notes.append("model evaluation (%d case files): %.1fs" % (len(texts), time.time() - t1))
    for name, _, lines, what in texts:
        outp, ok = res[name]
        if not ok:
            ctx.broken.append(("correspondence:" + what, "model evaluation failed (%s): %s" % (name, outp[-300:])))
            continue
        bad = ints(outp)
        if bad:
            ex = lines[bad[0]]
            ex = ex[0] if isinstance(ex, tuple) else ex
            ctx.broken.append(("correspondence:" + what, "model and implementation differ on %d of %d cases of %s, e.g. #%d %s" % (len(bad), len(lines), name, bad[0], ex[:160])))
    ctx.notes.append("float32 accumulation is outside the theorems: weights/accums/outputs are accepted within gamma_k (u = 2^-24) of the exact rational model; "
                     "maximum-weight mode, ll2cr, placeholders and block layout are compared exactly; dask vs one-shot is accepted within "
                     "2*((1+q)^3-1)*(max-min of the contributing inputs) + gamma_k with q the weight-table quantisation step, cells whose rim contributions flip are skipped")


def replay(ctx, data):
    c = data.get("case", {})
    case, kind = c.get("case"), c.get("oracle")
    if not case:
        return False
    op = {"ll2cr": "ll2cr", "fornav": "fornav", "scene": "scene"}[kind]
    so = build_fornav(ctx)
    o = ctx.impl("c08", {op: [case]}, extra_env={"C08_FORNAV_SO": so} if so else None)[op][0]
    if kind == "ll2cr":
        fails = judge_ll2cr(case, o)
    elif kind == "fornav":
        fails, _ = judge_fornav(case, o)
    else:
        fails, _ = judge_scene(case, o)
    for k, wh in fails:
        print("  %s: %s" % (k, wh))
    return any(k == data.get("key") for k, _ in fails)
