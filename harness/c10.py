"""C10 — slicing, stacking and concatenating areas commute with their coordinates."""
import itertools
import math

import numpy as np

from .common import ints, fhex

PROP_FILE = "Properties/C10.v"
GEN = ["GenC10", "GenC10imp"]
RUN_FILES = ["Model/C10_run.v", "Model/C10_imp_run.v"]

CRS = ["+proj=eqc +lon_0=0 +ellps=WGS84",
       "+proj=laea +lat_0=50 +lon_0=10 +ellps=WGS84",
       "+proj=longlat +datum=WGS84 +no_defs",
       "+proj=merc +ellps=WGS84",
       "+proj=stere +lat_0=90 +lon_0=0 +ellps=WGS84"]
# half-spans (x, y) inside which random extents are drawn, per CRS
SPAN = [(15e6, 8e6), (2e6, 2e6), (170.0, 80.0), (15e6, 10e6), (3e6, 3e6)]

HDR = ("From Coq Require Import ZArith List Bool PrimFloat.\n"
       "From PR Require Import Base.Num Base.F64 Base.ListX Base.Slice Model.Grid Model.SliceArea Model.Stack "
       "Model.LonlatPaths Model.C10_run Gen.GenC10 Model.ImpStack Gen.GenC10imp Model.C10_imp_run.\nImport ListNotations.\nOpen Scope Z_scope.\n")


# ------------------------------------------------------------------ Coq literals
def oz(v):
    return "None" if v is None else "(Some (%d))" % v


def osl(b):
    return "(mk_oslice %s %s)" % (oz(b[0]), oz(b[1]))


def key_lit(key):
    return "(%s, %s)" % (osl(key[0]), osl(key[1]))


def fobs(o, crs):
    e = o["ext"]
    return "(%s, %s, %s, %s, %d, %d, %d, %d, %d)" % (fhex(e[0]), fhex(e[1]), fhex(e[2]), fhex(e[3]), o["w"], o["h"],
                                                      o["off"][0], o["off"][1], crs)


def flist(l):
    return "[" + "; ".join(fhex(x) for x in l) + "]"


def zgrid(g):
    return "[" + "; ".join("[" + "; ".join("(%d)" % v for v in row) + "]" for row in g) + "]"


# ------------------------------------------------------------------ case generation
def axis_slices(n, pad=2):
    b = list(range(-n - pad, n + pad + 1)) + [None]
    return [(a, c) for a in b for c in b]


def sel(n, s):
    """independent oracle of python/numpy basic slicing: the selected indices"""
    return list(range(n))[slice(s[0], s[1])]


def rand_bound(r, n):
    k = r.random()
    if k < 0.2:
        return None
    if k < 0.3:
        return r.choice([0, n, -n, n - 1, -1, 1, n + 1, -n - 1, n + 5, -n - 5])
    return r.randint(-n - 3, n + 3)


def rand_slice(r, n):
    for _ in range(200):
        s = (rand_bound(r, n), rand_bound(r, n))
        if sel(n, s):
            return s
    return (None, None)


def rand_area(r, w, h, crs=None, nice=None, flipped=False):
    crs = r.randrange(len(CRS)) if crs is None else crs
    sx, sy = SPAN[crs]
    nice = r.random() < 0.3 if nice is None else nice
    if nice:
        step = 1000.0 if sx > 1000 else 0.25
        px = step * r.randint(1, 12)
        py = step * r.randint(1, 12)
        x0 = step * r.randint(-int(sx / step) // 2, int(sx / step) // 4)
        y0 = step * r.randint(-int(sy / step) // 2, int(sy / step) // 4)
        px = min(px, (sx - x0) / w)
        py = min(py, (sy - y0) / h)
        ext = [x0, y0, x0 + px * w, y0 + py * h]
    else:
        x0 = r.uniform(-sx, sx * 0.5)
        y0 = r.uniform(-sy, sy * 0.5)
        x1 = r.uniform(x0 + (sx - x0) * 0.05, sx)
        y1 = r.uniform(y0 + (sy - y0) * 0.05, sy)
        ext = [x0, y0, x1, y1]
    if flipped:
        ext = [ext[0], ext[3], ext[2], ext[1]]
    return {"crs": crs, "w": w, "h": h, "ext": [float(v) for v in ext]}


def chains_axis(n, length, pad=2):
    """all chains of `length` successive valid slices on an axis of n elements (bounds in [-n-pad, n+pad] + None)"""
    out = []

    def rec(cur_n, acc):
        if len(acc) == length:
            out.append(tuple(acc))
            return
        for s in axis_slices(n, pad):
            k = len(sel(cur_n, s))
            if k:
                rec(k, acc + [s])
    rec(n, [])
    return out


def gen_getitem(ctx):
    r = ctx.rng
    cases = []
    nmax = ctx.n(4, 5)
    # (1) exhaustive single slices: every valid slice of every axis length 1..nmax, on both axes
    for h in range(1, nmax + 1):
        for w in range(1, nmax + 1):
            ysl = [s for s in axis_slices(h) if sel(h, s)]
            xsl = [s for s in axis_slices(w) if sel(w, s)]
            area = rand_area(r, w, h)
            full = h * w <= ctx.n(2, 4)
            pairs = itertools.product(ysl, xsl) if full else \
                [(ysl[i % len(ysl)], xsl[(i * 7 + 3) % len(xsl)]) for i in range(max(len(ysl), len(xsl)))]
            for ys, xs in pairs:
                cases.append({"area": area, "keys": [[ys, xs]], "vectors": "all", "kind": "exh1"})
    # (2) exhaustive chains of length 2 (quick: n <= 2, thorough: n <= 4), sampled above
    cmax = ctx.n(2, 4)
    for n in range(1, nmax + 1):
        ych = chains_axis(n, 2)
        if n > cmax:
            ych = r.sample(ych, min(len(ych), ctx.n(600, 6000)))
        w = n % nmax + 1
        xch = chains_axis(w, 2)
        area = rand_area(r, w, n)
        for i, yc in enumerate(ych):
            xc = xch[(i * 11 + 5) % len(xch)]
            cases.append({"area": area, "keys": [[yc[0], xc[0]], [yc[1], xc[1]]], "vectors": "last", "kind": "exh2"})
    # (3) chains of length 3, sampled (thorough: many)
    for _ in range(ctx.n(300, 6000)):
        h, w = r.randint(1, nmax), r.randint(1, nmax)
        area = rand_area(r, w, h)
        keys, ch, cw = [], h, w
        for _ in range(3):
            ys, xs = rand_slice(r, ch), rand_slice(r, cw)
            keys.append([ys, xs])
            ch, cw = len(sel(ch, ys)), len(sel(cw, xs))
        cases.append({"area": area, "keys": keys, "vectors": "all", "kind": "chain3"})
    # (4) random medium / large areas, chains of 1..3, with lon/lats on the medium ones
    for i in range(ctx.n(150, 1500)):
        big = i % 3 == 0
        h = r.randint(200, 1200) if big else r.randint(2, 40)
        w = r.randint(200, 1200) if big else r.randint(2, 40)
        area = rand_area(r, w, h, flipped=(i % 17 == 5))
        keys, ch, cw = [], h, w
        for _ in range(r.randint(1, 3)):
            ys, xs = rand_slice(r, ch), rand_slice(r, cw)
            keys.append([ys, xs])
            ch, cw = len(sel(ch, ys)), len(sel(cw, xs))
        cases.append({"area": area, "keys": keys, "vectors": "last", "lonlats": (not big) and i % 2 == 0,
                      "kind": "large" if big else "medium"})
    # (5) huge shapes: extents, shape and offsets only
    for _ in range(ctx.n(20, 200)):
        h, w = r.randint(3000, 40000), r.randint(3000, 40000)
        area = rand_area(r, w, h)
        keys, ch, cw = [], h, w
        for _ in range(r.randint(1, 3)):
            ys, xs = rand_slice(r, ch), rand_slice(r, cw)
            keys.append([ys, xs])
            ch, cw = len(sel(ch, ys)), len(sel(cw, xs))
        cases.append({"area": area, "keys": keys, "vectors": "none", "kind": "huge"})
    # (6) not covered by the property (excluded from the verdict, exercised for crashes of the driver only):
    #     empty selections, steps other than None/1, int / bool keys
    mal = []
    area = rand_area(r, 5, 4)
    for key in ([[2, 1], [None, None]], [[None, None], [5, None]], [[4, 9], [0, 1]],
                [{"step": [None, None, 2]}, [None, None]], [[None, None], {"step": [None, None, -1]}],
                [{"int": 1}, [None, None]], [[None, None], {"int": True}]):
        mal.append({"area": area, "keys": [key], "vectors": "none", "kind": "excluded"})
    return cases, mal


def part_of(area, a, b):
    """the rows a..b of an area as an independent area spec (extent computed in the harness, float arithmetic)"""
    x0, y0, x1, y1 = area["ext"]
    psy = (y1 - y0) / area["h"]
    return {"crs": area["crs"], "w": area["w"], "h": b - a, "ext": [x0, y1 - b * psy, x1, y1 - a * psy]}


def gen_stack(ctx):
    r = ctx.rng
    cases = []
    for i in range(ctx.n(90, 900)):
        nm = r.randint(2, 4)
        crs = r.choice([0, 1, 2, 3])
        w = r.randint(1, 5)
        heights = [r.randint(1, 3) for _ in range(nm)]
        root = rand_area(r, w, sum(heights), crs=crs, nice=True)
        members, a = [], 0
        for hh in heights:
            members.append(part_of(root, a, a + hh))
            a += hh
        mode = i % 6
        if mode == 1:        # gaps: shift some members so that they are not contiguous
            for m in members[1:]:
                if r.random() < 0.6:
                    d = -(members[0]["ext"][3] - members[0]["ext"][1]) * r.randint(3, 6) * (1 + members.index(m))
                    m["ext"][1] += d
                    m["ext"][3] += d
        elif mode == 2:      # another member order
            r.shuffle(members)
        elif mode == 3:      # a CRS mismatch somewhere
            members[r.randrange(1, nm)]["crs"] = (crs + 1) % 4
        elif mode == 4:      # a different width is not merged
            j = r.randrange(nm)
            members[j] = dict(members[j], w=w + 1)
        elif mode == 5:      # x extents differ by one ulp-ish amount: not merged
            j = r.randrange(1, nm)
            members[j]["ext"][0] = math.nextafter(members[j]["ext"][0], math.inf)
        same_w = len({m["w"] for m in members if m["h"] > 0}) == 1
        total = sum(m["h"] for m in members)
        wcur = members[0]["w"]
        dss = [None]
        if same_w and mode != 3:
            rows = [(a, b) for a in range(0, total) for b in range(a + 1, total + 2)]
            rows = rows if total <= 5 else r.sample(rows, 12)
            for (a, b) in rows:
                cs = r.choice([[0, wcur], [None, None], [1, None], [0, -1] if wcur > 1 else [0, wcur], [-1, None]])
                if sel(wcur, cs):
                    dss.append([[a, b], cs])
        cases.append({"members": members, "lonlats": same_w and mode != 3, "data_slices": dss,
                      "nested": mode == 0 and i % 12 == 0, "mode": mode})
    return cases


def gen_split(ctx):
    r = ctx.rng
    cases = []
    for i in range(ctx.n(60, 500)):
        h = r.randint(2, 9) if i % 4 else r.randint(10, 400)
        w = r.randint(1, 9) if i % 4 else r.randint(10, 400)
        area = rand_area(r, w, h, nice=(i % 3 == 0))
        ks = range(1, h) if h <= 9 else r.sample(range(1, h), 6)
        for k in ks:
            cases.append({"area": area, "k": k})
    return cases


def gen_split_chain(ctx):
    """parts that reach their common edge along DIFFERENT slicing routes (top = parent[a:k], bottom = parent[a:b][k-a:], and
    the mirror image) on areas whose pixel size is an arbitrary double: the shared edge agrees only up to rounding"""
    r = ctx.rng
    cases = []
    for i in range(ctx.n(40, 400)):
        h, w = r.randint(4, 60), r.randint(1, 12)
        area = rand_area(r, w, h, nice=False)
        a = r.randint(0, h - 3)
        b = r.randint(a + 2, h)
        for k in r.sample(range(a + 1, b), min(b - a - 1, 5)):
            cases.append({"area": area, "k": k, "window": [a, b], "route": ("chain_bottom", "chain_top", "direct")[(i + k) % 3 if i % 5 == 0 else (i + k) % 2]})
    return cases


def gen_concat(ctx):
    """arbitrary pairs: contiguous either way, gaps, isclose boundary, x mismatch, crs / width mismatch"""
    r = ctx.rng
    cases = []
    for i in range(ctx.n(120, 1200)):
        crs = r.randrange(4)
        w = r.randint(1, 6)
        h1, h2 = r.randint(1, 5), r.randint(1, 5)
        root = rand_area(r, w, h1 + h2, crs=crs, nice=(i % 2 == 0))
        a, b = part_of(root, 0, h1), part_of(root, h1, h1 + h2)
        mode = i % 8
        if mode == 1:
            a, b = b, a
        elif mode == 2:      # perturb the shared edge around numpy.isclose's tolerance
            y = b["ext"][3]
            b["ext"][3] = y + r.choice([1e-9, -1e-9, 1e-5 * abs(y), 1.1e-5 * abs(y) + 2e-8, -0.9e-5 * abs(y), 1e-3 * abs(y) + 1.0])
        elif mode == 3:
            b["ext"][0] = math.nextafter(b["ext"][0], -math.inf)
        elif mode == 4:
            b["crs"] = (crs + 1) % 4
        elif mode == 5:
            b["w"] = w + 1
        elif mode == 6:      # a gap
            d = (root["ext"][3] - root["ext"][1])
            b["ext"][1] -= d
            b["ext"][3] -= d
        cases.append({"a": a, "b": b, "mode": mode})
    return cases


BACKINGS = ["np", "np_f", "np_strided", "np_negstride", "f32", "xr", "xr_dask", "xr_lab", "xr_revx", "xr_float", "xr_yone",
            "xr_xy", "xr_xy_lab", "xr_other", "xr_one_named"]
CLASSES = ["legacy", "future", "grid"]


def gen_joint(ctx):
    """slicing chains whose parent and children are requested lazily with the SAME chunks and evaluated in ONE dask.compute"""
    r = ctx.rng
    cases = []
    for i in range(ctx.n(60, 500)):
        h, w = r.randint(2, 8), r.randint(2, 8)
        area = rand_area(r, w, h, crs=r.choice([0, 1, 2, 3]))
        keys, ch_, cw_ = [], h, w
        for _ in range(r.randint(1, 2)):
            if i % 5 < 3:        # anchored at the upper-left corner: child and parent share pixel_upper_left and pixel size
                ys = (r.choice([None, 0, -ch_]), r.choice([None, -1, r.randint(1, ch_)]) if ch_ > 1 else None)
                xs = (r.choice([None, 0, -cw_]), r.choice([None, -1, r.randint(1, cw_)]) if cw_ > 1 else None)
            else:
                ys, xs = rand_slice(r, ch_), rand_slice(r, cw_)
            if not sel(ch_, ys):
                ys = (None, None)
            if not sel(cw_, xs):
                xs = (None, None)
            keys.append([list(ys), list(xs)])
            ch_, cw_ = len(sel(ch_, ys)), len(sel(cw_, xs))
        chunks = r.choice([1, 2, 3, 4, [r.randint(1, 4), r.randint(1, 4)], 4096])
        cases.append({"area": area, "keys": keys, "chunks": chunks, "reverse": i % 2 == 1})
    return cases


def gen_swath(ctx):
    r = ctx.rng
    cases = []
    nmax = ctx.n(4, 5)
    for n in range(1, nmax + 1):
        ych = chains_axis(n, 1) + (chains_axis(n, 2) if n <= ctx.n(2, 4) else r.sample(chains_axis(n, 2), ctx.n(400, 4000)))
        m = n % nmax + 1
        xch1, xch2 = chains_axis(m, 1), chains_axis(m, 2)
        for i, yc in enumerate(ych):
            xc = (xch1 if len(yc) == 1 else xch2)[(i * 13 + 1) % len(xch1 if len(yc) == 1 else xch2)]
            cases.append({"n": n, "m": m, "keys": [[y, x] for y, x in zip(yc, xc)], "cls": "future" if i % 2 else "legacy"})
    for i in range(ctx.n(150, 2000)):
        n, m = r.randint(1, 60), r.randint(1, 60)
        keys, cn, cm = [], n, m
        for _ in range(r.randint(1, 3)):
            ys, xs = rand_slice(r, cn), rand_slice(r, cm)
            keys.append([ys, xs])
            cn, cm = len(sel(cn, ys)), len(sel(cm, xs))
        cases.append({"n": n, "m": m, "keys": keys, "cls": CLASSES[i % 3], "backing": BACKINGS[(i // 3) % len(BACKINGS)]})
    conc = []
    for i in range(ctx.n(120, 1200)):
        n1, n2, m = r.randint(1, 7), r.randint(1, 7), r.randint(1, 6)
        m2 = m if i % 9 else m + 1
        total = n1 + n2
        key = [[r.randint(0, total), r.randint(0, total + 2)], rand_slice(r, m)] if i % 2 else [rand_slice(r, total), rand_slice(r, m)]
        if not sel(total, key[0]):
            key[0] = [None, None]
        conc.append({"n1": n1, "n2": n2, "m": m, "m2": m2, "cls": CLASSES[i % 3], "backing": BACKINGS[(i // 3) % len(BACKINGS)],
                     "key": key if m2 == m else None, "k": r.randint(1, n1 - 1) if n1 > 1 else None})
    return cases, conc



def compositions(r, n):
    """a random tuple of positive chunk sizes summing to n"""
    out, left = [], n
    while left > 0:
        k = r.randint(1, left)
        out.append(k)
        left -= k
    return out


def rand_window(r, n):
    a = r.randint(0, n - 1)
    return [a, r.randint(a + 1, n + 1)]


def rand_ds(r, h, w, plain_ok=False):
    k = r.random()
    if k < 0.25:
        return None
    if plain_ok and k < 0.35:
        return [rand_window(r, h)]
    return [rand_window(r, h), r.choice([[0, w], [None, None], rand_window(r, w)])]


def gen_paths(ctx):
    """the other code paths of get_lonlats: dask chunks, cache= histories, plain-slice data_slice, nprocs"""
    r = ctx.rng
    ap, sp = [], []
    for i in range(ctx.n(40, 300)):
        h, w = r.randint(1, 8), r.randint(1, 8)
        area = rand_area(r, w, h, crs=r.choice([0, 1, 2, 3]))
        chunks = [r.randint(1, 5), [r.randint(1, 5), r.randint(1, 5)], [compositions(r, h), compositions(r, w)]]
        hist = [[rand_ds(r, h, w, plain_ok=True), r.randint(0, 1)] for _ in range(r.randint(3, 6))]
        # every history contains a windowed call followed by a full call and a caching full call followed by a windowed one
        hist = [[[rand_window(r, h), rand_window(r, w)], i % 2], [None, 1], [[rand_window(r, h), rand_window(r, w)], 0], [None, 0]] + hist
        ap.append({"area": area, "chunks": chunks, "dask_slice": [rand_window(r, h), rand_window(r, w)], "history": hist,
                   "plain": [[rand_window(r, h)]], "nprocs": 2 if i < ctx.n(2, 6) else 0})
    for i in range(ctx.n(30, 200)):
        nm = r.randint(2, 3)
        w = r.randint(1, 5)
        heights = [r.randint(1, 3) for _ in range(nm)]
        root = rand_area(r, w, sum(heights) * 3, crs=r.choice([0, 1, 2, 3]), nice=True)
        members, a = [], 0
        for hh in heights:                       # every other block of rows: gaps between the members
            members.append(part_of(root, a, a + hh))
            a += hh * 3 if i % 4 else hh         # i % 4 == 0: contiguous members (they merge)
        total = sum(heights)
        chunks = [r.randint(1, 4), [r.randint(1, 4), r.randint(1, 4)], [heights, compositions(r, w)],
                  [compositions(r, total), compositions(r, w)]]
        # every history starts with a windowed stack call followed by a full one (a stale window must not be served) and a
        # full call followed by a windowed one
        hist = [["stack", [rand_window(r, total), rand_window(r, w)], i % 2], ["stack", None, (i // 2) % 2],
                ["stack", [rand_window(r, total), [None, None]], 0]]
        for _ in range(r.randint(3, 6)):
            if r.random() < 0.6:
                ds = rand_ds(r, total, w)
                hist.append(["stack", ds, r.randint(0, 1)])
            else:
                j = r.randrange(nm) if i % 4 else 0          # i % 4 == 0: the members merge into one def
                hj = heights[j] if i % 4 else total
                hist.append(["member", j, rand_ds(r, hj, w, plain_ok=True), r.randint(0, 1)])
        sp.append({"members": members, "chunks": chunks, "history": hist})
    return ap, sp

# ------------------------------------------------------------------ oracles
def close_vec(child, parent_sel, scale):
    if len(child) != len(parent_sel):
        return False
    return all(abs(a - b) <= 1e-9 * scale for a, b in zip(child, parent_sel))


def close_grid(a, b, tol):
    a, b = np.asarray(a, dtype=float), np.asarray(b, dtype=float)
    if a.shape != b.shape:
        return False
    fa, fb = np.isfinite(a), np.isfinite(b)
    if not np.array_equal(fa, fb):
        return False
    return bool(np.all(np.abs(a[fa] - b[fb]) <= tol))


def run(ctx):
    ctx.rule = ("areas with random / round extents in 5 CRSs (eqc, laea, longlat, merc, polar stere; some with flipped y); "
                "EXHAUSTIVE: every step-None slice with bounds in [-n-2, n+2] + None selecting >= 1 element, for every axis "
                "length n <= 4 (quick) / 5 (thorough), all chains of two such slices for n <= 2 / 4 (sampled above), sampled "
                "chains of three; random medium (<= 40), large (<= 1200) and huge (<= 40000) shapes with chains of 1-3 random "
                "slices (None / negative / out-of-range bounds); every split row of random areas, both member orders and the "
                "stacked form, and windows parent[a:b] of areas with arbitrary-double pixel sizes split at sampled rows with the two "
                "parts cut along different slicing routes (one from the parent, one from the window; shared edge equal up to rounding); "
                "stacked form; stacks of 2-4 members (contiguous, gaps, permuted, CRS / width mismatch, height 0, one-ulp x "
                "mismatch) with all row windows as data_slice; legacy and future swaths sliced (same enumeration) and "
                "concatenated; the other code paths of get_lonlats on small areas and stacks with gaps: dask chunks (int, pair, explicit "
                "tuples, chunk count equal / unequal to the member count), histories of 3-6 get_lonlats(data_slice, cache) calls on one "
                "object (stack calls interleaved with direct member calls), plain-slice data_slice, nprocs=2; slicing chains (most anchored at the "
                "upper-left corner) whose parent and children are requested lazily with the same chunks and evaluated in ONE dask.compute, "
                "compared with stand-alone evaluation; swath arrays also as Fortran-ordered / strided / negative-stride / float32 numpy arrays and "
                "as xarray.DataArray (unlabelled, dask-backed, int labels, reversed column labels, non-identical float labels, row labels on one "
                "operand, dims named ('x','y') i.e. first axis called x, other dim names), for the legacy and future SwathDefinition and for "
                "GridDefinition, judged positionally like numpy. Non-trivial = the slice is a proper sub-window / the chain has >= 2 steps / the stack has >= 2 "
                "members with a row window starting after row 0 / the concatenation changes the shape; distinct = distinct inputs")
    ctx.exhaustive = True
    gcases, mal = gen_getitem(ctx)
    scases = gen_stack(ctx)
    spl = gen_split(ctx) + gen_split_chain(ctx)
    ccases = gen_concat(ctx)
    swc, swconc = gen_swath(ctx)
    apaths, spaths = gen_paths(ctx)
    jcases = gen_joint(ctx)
    payload = {"crs": CRS,
               "getitem": [{k: v for k, v in c.items() if k != "kind"} for c in gcases + mal],
               "stack": scases, "split": spl, "concat": ccases, "swath": swc, "swath_concat": swconc,
               "area_paths": apaths, "stack_paths": spaths, "joint": jcases}
    import sys
    import time
    t0 = time.time()
    obs = ctx.impl("c10", payload, timeout=1500)
    t_impl = time.time() - t0
    texts = []

    def samp(d):
        """one evidence sample per generator class (the framework keeps at most 16)"""
        k = next(iter(d))
        return None if ctx._sample_kinds.get(k, 0) >= 1 else d

    # ================================================================ getitem
    L_chain, L_vec = [], []
    for c, o in zip(gcases + mal, obs["getitem"]):
        area, keys, kind = c["area"], c["keys"], c["kind"]
        if kind == "excluded":
            ctx.count("excluded_from_property(empty/step/int keys)")
            continue
        h, w = area["h"], area["w"]
        proper = any(len(sel(h, k[0])) < h or len(sel(w, k[1])) < w for k in keys[:1])
        ctx.case(("gi", repr(area), repr(keys)), nontrivial=proper or len(keys) > 1,
                 sample=samp({"getitem": {"shape": [h, w], "extent": area["ext"], "crs": CRS[area["crs"]], "keys": keys},
                         "impl_last": {k: v for k, v in ((o.get("steps") or [{}])[-1]).items() if k not in ("vec", "ll")}}))
        ctx.count("getitem_" + kind)
        rep = {"oracle": "getitem", "area": area, "keys": keys}
        if "error" in o:
            ctx.add_failure("C10.getitem.error", "AreaDefinition construction failed: %s" % o, rep)
            continue
        rows, cols = list(range(h)), list(range(w))
        good = True
        steps_lit = []
        rootx = o.get("root_vec", {}).get("x")
        rooty = o.get("root_vec", {}).get("y")
        ext = area["ext"]
        scale_x = max(abs(ext[0]), abs(ext[2]), abs(ext[2] - ext[0]))
        scale_y = max(abs(ext[1]), abs(ext[3]), abs(ext[3] - ext[1]))
        for i, (key, st) in enumerate(zip(keys, o["steps"])):
            rows, cols = rows[slice(key[0][0], key[0][1])], cols[slice(key[1][0], key[1][1])]
            what = "area %s %s sliced by %s" % ((h, w), area["ext"], keys[:i + 1])
            if "error" in st:
                ctx.add_failure("C10.getitem.error", what + " raises " + st["error"], rep)
                good = False
                break
            np_shape = list(np.empty((h, w), dtype=np.int8)[np.ix_(rows, cols)].shape)
            if st["shape"] != [len(rows), len(cols)] or st["shape"] != np_shape or [st["h"], st["w"]] != st["shape"]:
                ctx.add_failure("C10.getitem.shape", what + " has shape %s, numpy gives %s" % (st["shape"], np_shape), rep)
                good = False
            if st["off"] != [rows[0], cols[0]]:
                ctx.add_failure("C10.getitem.crop_offset", what + " has crop_offset %s, cumulative offset is %s"
                                % (st["off"], [rows[0], cols[0]]), rep)
                good = False
            if "vec" in st and rootx is not None:
                if not (close_vec(st["vec"]["x"], [rootx[j] for j in cols], scale_x) and
                        close_vec(st["vec"]["y"], [rooty[j] for j in rows], scale_y)):
                    ctx.add_failure("C10.getitem.coords", what + ": projection vectors are not the slice of the parent's "
                                    "(x %s.. vs %s.., y %s.. vs %s..)" % (st["vec"]["x"][:3], [rootx[j] for j in cols][:3],
                                                                          st["vec"]["y"][:3], [rooty[j] for j in rows][:3]), rep)
                    good = False
            if "ll" in st:
                pl = o["root_ll"]
                want_lo = np.asarray(pl["lons"], dtype=float)[np.ix_(rows, cols)]
                want_la = np.asarray(pl["lats"], dtype=float)[np.ix_(rows, cols)]
                if not (close_grid(st["ll"]["lons"], want_lo, 1e-7) and close_grid(st["ll"]["lats"], want_la, 1e-7)):
                    ctx.add_failure("C10.getitem.lonlats", what + ": lon/lats are not the slice of the parent's", rep)
                    good = False
            steps_lit.append("(%s, %s)" % (key_lit(key), fobs(st, area["crs"])))
            if "vec" in st and len(st["vec"]["x"]) <= 48 and len(st["vec"]["y"]) <= 48:
                L_vec.append("(%s, %s, %s)" % (fobs(st, area["crs"]), flist(st["vec"]["x"]), flist(st["vec"]["y"])))
        if len(o["steps"]) == len(keys) and all("error" not in st for st in o["steps"]):
            L_chain.append("(%s, [%s])" % (fobs(o["root"], area["crs"]), "; ".join(steps_lit)))
        if rootx is not None and len(rootx) <= 48 and len(rooty) <= 48 and kind in ("exh1", "medium"):
            L_vec.append("(%s, %s, %s)" % (fobs(o["root"], area["crs"]), flist(rootx), flist(rooty)))
    for j in range(0, len(L_chain), 400):
        texts.append(("c10_getitem_%03d" % (j // 400), HDR + "Definition cases := [%s].\nEval vm_compute in (bad chk_getitem cases).\n"
                      % ";\n".join(L_chain[j:j + 400]), L_chain[j:j + 400], "getitem"))
    L_vec = list(dict.fromkeys(L_vec))
    for j in range(0, len(L_vec), 400):
        texts.append(("c10_vectors_%03d" % (j // 400), HDR + "Definition cases := [%s].\nEval vm_compute in (bad chk_vectors cases).\n"
                      % ";\n".join(L_vec[j:j + 400]), L_vec[j:j + 400], "proj_vectors"))

    # ================================================================ concat of arbitrary pairs
    L = []
    for c, o in zip(ccases, obs["concat"]):
        a, b = c["a"], c["b"]
        ctx.case(("cc", repr(a), repr(b)), nontrivial=True, sample=samp({"concat": {"a": a, "b": b}, "impl": o}))
        ctx.count("concat_mode%d" % c["mode"])
        rep = {"oracle": "concat", "a": a, "b": b}
        if "error" in o:
            ctx.add_failure("C10.concat.error", "concatenate_area_defs(%s, %s) raises %s" % (a, b, o["error"]), rep)
            continue
        if c["mode"] in (0, 1) and "area" not in o:
            ctx.add_failure("C10.split_concat.incompatible", "vertically adjacent areas %s / %s are reported incompatible" % (a, b), rep)
        if c["mode"] in (3, 4, 5, 6) and "area" in o:
            ctx.add_failure("C10.concat.merged_incompatible", "areas %s / %s that are not contiguous members of one grid are merged into %s"
                            % (a, b, o["area"]), rep)
        oa = {"ext": a["ext"], "w": a["w"], "h": a["h"], "off": [0, 0]}
        ob = {"ext": b["ext"], "w": b["w"], "h": b["h"], "off": [0, 0]}
        exp = "(Some %s)" % fobs(o["area"], a["crs"]) if "area" in o else "None"
        L.append("(%s, %s, %s)" % (fobs(oa, a["crs"]), fobs(ob, b["crs"]), exp))
    texts.append(("c10_concat", HDR + "Definition cases := [%s].\nEval vm_compute in (bad chk_concat cases).\n" % ";\n".join(L), L, "concatenate_area_defs"))

    # ================================================================ split at every row + concatenate / stack
    L = []
    for c, o in zip(spl, obs["split"]):
        area, k = c["area"], c["k"]
        route = c.get("route")
        ctx.case(("sp", repr(area), k, repr(c.get("window")), route), nontrivial=True, sample=samp({"split": {"shape": [area["h"], area["w"]], "extent": area["ext"], "row": k},
                                                                "impl_tb": o.get("tb")}))
        ctx.count("split" if route is None else "split_route_" + route)
        rep = {"oracle": "split", "area": area, "k": k}
        if route is not None:
            rep.update(window=c["window"], route=route)
        if "error" in o:
            ctx.add_failure("C10.split_concat.error", "split of %s at row %d raises %s" % (area, k, o["error"]), rep)
            continue
        # the area the parts were cut from: the parent itself, or the window parent[w0:w1] (as observed)
        ext, shape = o["root"]["ext"], o["root"]["shape"]
        chain = route in ("chain_bottom", "chain_top")
        how = "" if route is None else " (window rows %s of the parent, parts cut along route %s%s)" % (
            c["window"], route, {"chain_bottom": ": top = parent[w0:k], bottom = parent[w0:w1][k-w0:]",
                                 "chain_top": ": top = parent[w0:w1][:k-w0], bottom = parent[k:w1]"}.get(route, ""))
        tol = [1e-9 * max(abs(ext[0]), abs(ext[2]), abs(ext[2] - ext[0])), 1e-9 * max(abs(ext[1]), abs(ext[3]), abs(ext[3] - ext[1]))]
        for name in ("tb", "bt"):
            m = o[name]
            what = "area %s %s split at row %d%s, concatenate_area_defs(%s)" % ((area["h"], area["w"]), area["ext"], k, how,
                                                                                "top, bottom" if name == "tb" else "bottom, top")
            if "area" not in m:
                ctx.add_failure("C10.split_concat.chain_parts" if chain else "C10.split_concat.incompatible",
                                what + " raises IncompatibleAreas (shared edge: %r vs %r)" % (o["top"]["ext"][1], o["bottom"]["ext"][3]), rep)
                continue
            ok = (m["area"]["shape"] == shape and m["eq"] and m["eq_rev"] and
                  all(abs(x - y) <= tol[i % 2] for i, (x, y) in enumerate(zip(m["area"]["ext"], ext))))
            if not ok:
                ctx.add_failure("C10.split_concat.chain_parts" if chain else "C10.split_concat.extent",
                                what + " gives %s (== original: %s)" % (m["area"], m["eq"]), rep)
        s = o["stack"]
        if not (s["ndefs"] == 1 and s["squeezed_is_area"] and s["eq"] and s["area"]["shape"] == shape
                and s["height"] == shape[0] and s["width"] == shape[1]):
            ctx.add_failure("C10.stack.merge_chain_parts" if chain else "C10.stack.merge",
                            "StackedAreaDefinition(top, bottom).squeeze() of %s split at row %d%s is %s" % (area, k, how, s), rep)
        top, bottom = o["top"], o["bottom"]
        exp = "(Some %s)" % fobs(o["tb"]["area"], area["crs"]) if "area" in o["tb"] else "None"
        L.append("(%s, %s, %s)" % (fobs(dict(top, off=[0, 0]), area["crs"]), fobs(dict(bottom, off=[0, 0]), area["crs"]), exp))
        exp = "(Some %s)" % fobs(o["bt"]["area"], area["crs"]) if "area" in o["bt"] else "None"
        L.append("(%s, %s, %s)" % (fobs(dict(bottom, off=[0, 0]), area["crs"]), fobs(dict(top, off=[0, 0]), area["crs"]), exp))
    for j in range(0, len(L), 400):
        texts.append(("c10_split_%03d" % (j // 400), HDR + "Definition cases := [%s].\nEval vm_compute in (bad chk_concat cases).\n"
                      % ";\n".join(L[j:j + 400]), L[j:j + 400], "split_concat"))

    # ================================================================ stacks
    L_st, L_rows = [], []
    for c, o in zip(scases, obs["stack"]):
        members = c["members"]
        ctx.count("stack_mode%d" % c["mode"])
        rep = {"oracle": "stack", "members": members, "nested": c["nested"], "mode": c["mode"]}
        if "error" in o:
            ctx.case(("st", repr(members)), nontrivial=False)
            ctx.add_failure("C10.stack.error", "StackedAreaDefinition of %s raises %s" % (members, o["error"]), rep)
            continue
        mem_lit = "[" + "; ".join(fobs({"ext": m["ext"], "w": m["w"], "h": m["h"], "off": [0, 0]}, m["crs"]) for m in members) + "]"
        if o.get("not_implemented"):
            ctx.case(("st", repr(members)), nontrivial=True, sample=samp({"stack": {"members": members}, "impl": "NotImplementedError"}))
            if len({m["crs"] for m in members if m["h"] > 0}) == 1:
                ctx.add_failure("C10.stack.error", "members with one CRS are rejected: %s" % (members,), rep)
            L_st.append("(%s, None)" % mem_lit)
            continue
        L_st.append("(%s, Some ([%s], %d, %d))" % (mem_lit, "; ".join(fobs(d, [m["crs"] for m in members if m["h"] > 0][0]) for d in o["defs"]),
                                                   o["height"], o["width"]))
        live = [m for m in members if m["h"] > 0]
        if o["height"] != sum(m["h"] for m in live) or o["width"] != live[0]["w"] or (o["squeeze_single"] != (len(o["defs"]) == 1)):
            ctx.add_failure("C10.stack.shape", "stack of %s has height %s width %s" % (members, o["height"], o["width"]), rep)
        if c["mode"] == 0 and len(o["defs"]) != 1:
            ctx.add_failure("C10.stack.merge", "vertically adjacent members %s are not merged: %d defs" % (members, len(o["defs"])), rep)
        aa = o.get("after_append")
        if aa is not None:
            ctx.count("stack_append_after_memo")
            if "error" in aa or not (aa["lons_none"] and aa["hash_none"]):
                ctx.add_failure("C10.stack.append_memo", "after get_lonlats() and hash() on a stack of %s, append() leaves the memoised "
                                "lons/lats/hash in place: %s" % ([[m["h"], m["w"]] for m in members], aa), rep)
        if not c["lonlats"]:
            ctx.case(("st", repr(members)), nontrivial=len(live) >= 2, sample=samp({"stack": {"members": members}, "impl_ndefs": len(o["defs"])}))
            continue
        # provenance tags of every cell of every def
        tags, ms = {}, []
        for di, d in enumerate(o["def_ll"]):
            g = []
            for ri, (rlo, rla) in enumerate(zip(d["lons"], d["lats"])):
                row = []
                for ci, (lo, la) in enumerate(zip(rlo, rla)):
                    t = di * 1000000 + ri * 1000 + ci
                    tags[(lo, la)] = t
                    row.append(t)
                g.append(row)
            ms.append(g)
        full_lo = np.vstack([np.asarray(d["lons"], dtype=float) for d in o["def_ll"]])
        full_la = np.vstack([np.asarray(d["lats"], dtype=float) for d in o["def_ll"]])
        unique = len(tags) == full_lo.size
        for ds, ll in zip(c["data_slices"], o["ll"]):
            nontriv = len(o["defs"]) >= 2 and ds is not None and ds[0][0] > 0
            ctx.case(("stll", repr(members), repr(ds)), nontrivial=nontriv or ds is None,
                     sample=samp({"stacked_lonlats": {"member_shapes": [[m["h"], m["w"]] for m in members], "ndefs": len(o["defs"]), "data_slice": ds}}))
            ctx.count("stacked_lonlats_" + ("full" if ds is None else "data_slice"))
            rep2 = dict(rep, oracle="stack_lonlats", data_slice=ds)
            keyname = "C10.stacked_lonlats.full" if ds is None else "C10.stacked_lonlats.data_slice"
            if "error" in ll:
                ctx.add_failure(keyname, "get_lonlats(data_slice=%s) of the stack of %s raises %s" % (ds, members, ll["error"]), rep2)
                continue
            if ds is None:
                want_lo, want_la = full_lo, full_la
            else:
                rs, cs = slice(ds[0][0], ds[0][1]), slice(ds[1][0], ds[1][1])
                want_lo, want_la = full_lo[rs, cs], full_la[rs, cs]
            if not (close_grid(ll["lons"], want_lo, 1e-9) and close_grid(ll["lats"], want_la, 1e-9)):
                got = np.asarray(ll["lats"], dtype=float)
                ctx.add_failure(keyname, "get_lonlats(data_slice=%s) of a stack with member heights %s is not the row-wise concatenation of "
                                "the members' lon/lats%s: shape %s, expected %s; first-column lats %s, expected %s"
                                % (ds, [d["h"] for d in o["defs"]], "" if ds is None else "[data_slice]", list(got.shape), list(want_la.shape),
                                   got[:, 0].tolist() if got.ndim == 2 and got.shape[1] else [], want_la[:, 0].tolist() if want_la.shape[1] else []), rep2)
            if unique:
                try:
                    grid = [[tags[(lo, la)] for lo, la in zip(rlo, rla)] for rlo, rla in zip(ll["lons"], ll["lats"])]
                except KeyError:
                    continue
                dsl = "None" if ds is None else "(Some (%d, %d, %s))" % (ds[0][0], ds[0][1], osl(ds[1]))
                L_rows.append("(%s, %s, %s)" % ("[" + "; ".join(zgrid(g) for g in ms) + "]", dsl, zgrid(grid)))
        # members given north to south and contiguous: the stack's lon/lats are np.vstack of the MEMBERS'
    for j in range(0, len(L_st), 400):
        texts.append(("c10_stack_%03d" % (j // 400), HDR + "Definition cases : list (list fobs * option (list fobs * Z * Z)) := [%s].\n"
                      "Eval vm_compute in (bad chk_stack cases).\n" % ";\n".join(L_st[j:j + 400]), L_st[j:j + 400], "stack_append"))
        texts.append(("c10_impstack_%03d" % (j // 400), HDR + "Definition cases : list (list fobs * option (list fobs * Z * Z)) := [%s].\n"
                      "Eval vm_compute in (bad chk_imp_stack cases).\n" % ";\n".join(L_st[j:j + 400]), L_st[j:j + 400], "imp_stack_append"))
    for j in range(0, len(L_rows), 400):
        texts.append(("c10_stackrows_%03d" % (j // 400), HDR + "Definition cases : list (list (list (list Z)) * option (Z * Z * oslice) * list (list Z)) := [%s].\n"
                      "Eval vm_compute in (bad chk_stack_rows cases).\n" % ";\n".join(L_rows[j:j + 400]), L_rows[j:j + 400], "stacked_lonlats"))

    # ================================================================ swaths
    L = []
    for c, o in zip(swc, obs["swath"]):
        n, m, keys = c["n"], c["m"], c["keys"]
        ctx.case(("sw", n, m, repr(keys), c["cls"]), nontrivial=len(keys) > 1 or len(sel(n, keys[0][0])) < n or len(sel(m, keys[0][1])) < m,
                 sample=samp({"swath_slice": {"shape": [n, m], "keys": keys, "class": c["cls"]}}))
        ctx.count("swath_slice_" + c["cls"])
        bk = c.get("backing", "np")
        ctx.count("swath_backing_" + bk)
        sfx = "" if bk == "np" else ".input_type"
        rep = {"oracle": "swath", "case": c}
        if "error" in o:
            ctx.add_failure("C10.swath.slice" + sfx, "swath %s (%s) of shape %s raises %s" % (c["cls"], bk, (n, m), o["error"]), rep)
            continue
        rows, cols = list(range(n)), list(range(m))
        ok = True
        for key, st in zip(keys, o["steps"]):
            rows, cols = rows[slice(key[0][0], key[0][1])], cols[slice(key[1][0], key[1][1])]
            want = [[r_ * 1000 + c_ for c_ in cols] for r_ in rows]
            want_mod = "pyresample.future.geometry.swath" if c["cls"] == "future" else "pyresample.geometry"
            want_cls = "GridDefinition" if c["cls"] == "grid" else "SwathDefinition"
            if "error" in st or st["lons"] != want or not st["lats_ok"] or st["shape"] != [len(rows), len(cols)] or st["module"] != want_mod or st["cls"] != want_cls:
                ctx.add_failure("C10.swath.slice" + sfx, "%s swath (arrays as %s) of shape %s sliced by %s gives %s, expected rows %s cols %s"
                                % (c["cls"], bk, (n, m), keys, {k: v for k, v in st.items() if k != "lons"}, rows, cols), rep)
                ok = False
                break
        if ok and len(o["steps"]) == len(keys) and n <= 12 and m <= 12:
            L.append("(%d, %d, [%s], %s)" % (n, m, "; ".join(key_lit(k) for k in keys), zgrid(o["steps"][-1]["lons"])))
    for j in range(0, len(L), 500):
        texts.append(("c10_swath_%03d" % (j // 500), HDR + "Definition cases := [%s].\nEval vm_compute in (bad chk_np_chain cases).\n"
                      % ";\n".join(L[j:j + 500]), L[j:j + 500], "swath_getitem"))

    L = []
    for c, o in zip(swconc, obs["swath_concat"]):
        n1, n2, m, m2 = c["n1"], c["n2"], c["m"], c["m2"]
        ctx.case(("swc", repr(c)), nontrivial=True, sample=samp({"swath_concat": {"shapes": [[n1, m], [n2, m2]], "class": c["cls"], "key": c["key"]}}))
        ctx.count("swath_concat_" + c["cls"])
        bk = c.get("backing", "np")
        ctx.count("swath_concat_backing_" + bk)
        sfx = "" if bk == "np" else ".input_type"
        rep = {"oracle": "swath_concat", "case": c}
        if "error" in o:
            ctx.add_failure("C10.swath.concat" + sfx, "swath concatenation %s raises %s" % (c, o["error"]), rep)
            continue
        a = [[r_ * 1000 + c_ for c_ in range(m)] for r_ in range(n1)]
        b = [[(r_ + 500) * 1000 + c_ for c_ in range(m2)] for r_ in range(n2)]
        cc = o["concat"]
        if m != m2:
            if "error" not in cc:
                ctx.add_failure("C10.swath.concat" + sfx, "swaths of different widths %s are concatenated into shape %s" % (c, cc.get("shape")), rep)
            continue
        if "error" in cc or cc["lons"] != a + b or not cc["lats_ok"] or cc["shape"] != [n1 + n2, m]:
            ctx.add_failure("C10.swath.concat" + sfx, "concatenate of %s swaths (arrays as %s) (%d,%d)+(%d,%d) is not the row-wise concatenation: %s"
                            % (c["cls"], bk, n1, m, n2, m, {k: v for k, v in cc.items() if k != "lons"}), rep)
            continue
        L.append("(%s, %s, %s)" % (zgrid(a), zgrid(b), zgrid(cc["lons"])))
        if "concat_slice" in o:
            key = c["key"]
            rows, cols = sel(n1 + n2, key[0]), sel(m, key[1])
            want = [[(a + b)[r_][c_] for c_ in cols] for r_ in rows]
            if o["concat_slice"]["lons"] != want:
                ctx.add_failure("C10.swath.concat", "slice %s of the concatenation (%d,%d)+(%d,%d) differs from slicing the concatenated arrays"
                                % (key, n1, m, n2, m), rep)
        if "append" in o:
            ap = o["append"]
            if ap["lons"] != a + b or not ap["lats_ok"] or ap["shape"] != [n1 + n2, m] or ap["size"] != (n1 + n2) * m:
                ctx.add_failure("C10.swath.append" + sfx, "append of swaths (arrays as %s) (%d,%d)+(%d,%d): %s" % (bk, n1, m, n2, m, {k: v for k, v in ap.items() if k != "lons"}), rep)
        if "split" in o:
            sp = o["split"]
            if "error" in sp or not (sp["lons_eq"] and sp["lats_eq"] and sp["eq"] and sp["shape"] == [n1, m]):
                ctx.add_failure("C10.swath.split" + sfx, "swath (arrays as %s) (%d,%d) split at row %s and concatenated: %s" % (bk, n1, m, c["k"], sp), rep)
    texts.append(("c10_swath_concat", HDR + "Definition cases := [%s].\nEval vm_compute in (bad chk_swath_concat cases).\n" % ";\n".join(L), L, "swath_concat"))


    # ================================================================ other code paths of get_lonlats
    def tiles_ok(chunks, shape):
        return len(chunks) == len(shape) and all(all(v >= 0 for v in c) and sum(c) == n for c, n in zip(chunks, shape))

    def np_ds(arr, ds):
        arr = np.asarray(arr, dtype=float)
        if ds is None:
            return arr
        if len(ds) == 1:
            return arr[slice(ds[0][0], ds[0][1])]
        return arr[slice(ds[0][0], ds[0][1]), slice(ds[1][0], ds[1][1])]

    def same_ll(got, full, ds, tol=1e-9):
        return "error" not in got and close_grid(got["lons"], np_ds(full["lons"], ds), tol) and close_grid(got["lats"], np_ds(full["lats"], ds), tol)

    L_dask, L_memo = [], []
    for c, o in zip(apaths, obs["area_paths"]):
        area = c["area"]
        h, w = area["h"], area["w"]
        rep = {"oracle": "area_paths", "case": c}
        if "error" in o:
            ctx.add_failure("C10.lonlats.error", "get_lonlats paths of %s raise %s" % (area, o["error"]), rep)
            continue
        for ch, e in zip(c["chunks"], o["dask"]):
            ctx.case(("dask", repr(area), repr(ch)), nontrivial=True, sample=samp({"dask_chunks": {"shape": [h, w], "chunks": ch, "dask_chunks_seen": e.get("chunks")}}))
            ctx.count("area_dask_chunks")
            ok = "error" not in e and tiles_ok(e["chunks"], [h, w]) and tiles_ok(e["ll_chunks"], [h, w]) \
                and e["x"] == o["proj"]["x"] and e["y"] == o["proj"]["y"] and same_ll(e, o["full"], None) \
                and same_ll(e["slice"], o["full"], c["dask_slice"])
            if not ok:
                ctx.add_failure("C10.lonlats.dask", "area %s %s with chunks=%s: the dask path differs from the numpy path (%s)"
                                % ((h, w), area["ext"], ch, e.get("error", e.get("chunks"))), rep)
                continue
            L_dask.append("(%s, %s, %s, %s, %s)" % (fobs(o["obs"], area["crs"]), "[%s]" % "; ".join("(%d)" % v for v in e["chunks"][0]),
                                                    "[%s]" % "; ".join("(%d)" % v for v in e["chunks"][1]),
                                                    "[" + "; ".join(flist(row) for row in e["x"]) + "]", "[" + "; ".join(flist(row) for row in e["y"]) + "]"))
        ctx.case(("hist", repr(area), repr(c["history"])), nontrivial=any(f for _, f in c["history"]),
                 sample=samp({"cache_history": {"shape": [h, w], "calls(data_slice, cache)": c["history"], "memo_set_after": [x.get("memo_set") for x in o["hist"]]}}))
        ctx.count("area_cache_history")
        bad = [i for i, ((ds, flag), e) in enumerate(zip(c["history"], o["hist"])) if not same_ll(e, o["full"], ds)]
        if bad:
            ctx.add_failure("C10.lonlats.cache_history", "area %s: call %d of the history %s does not return lonlats()[data_slice]" % ((h, w), bad[0], c["history"]), rep)
        else:
            L_memo.append("(%s, [%s])" % (fobs(o["obs"], area["crs"]), "; ".join(
                "(%s, %s, %s)" % ("None" if ds is None else "(Some %s)" % key_lit(ds if len(ds) == 2 else [ds[0], [None, None]]),
                                  "true" if flag else "false", "true" if e["memo_set"] else "false")
                for (ds, flag), e in zip(c["history"], o["hist"]))))
        for ds, e in zip(c["plain"], o["plain"]):
            ctx.count("area_plain_slice")
            if not same_ll(e, o["full"], ds):
                ctx.add_failure("C10.lonlats.plain_slice", "area %s: get_lonlats(data_slice=slice%s) is not lonlats()[rows]" % ((h, w), tuple(ds[0])), rep)
        if "nprocs" in o:
            ctx.count("area_nprocs2")
            if "error" in o["nprocs"]:
                ctx.notes.append("nprocs=2 could not run here: " + o["nprocs"]["error"])
            elif not same_ll(o["nprocs"], o["full"], None):
                ctx.add_failure("C10.lonlats.nprocs", "area %s: get_lonlats(nprocs=2) differs from nprocs=1" % ((h, w),), rep)
    for c, o in zip(spaths, obs["stack_paths"]):
        rep = {"oracle": "stack_paths", "case": c}
        if "error" in o:
            ctx.add_failure("C10.stacked_lonlats.error", "stack paths of %s raise %s" % (c["members"], o["error"]), rep)
            continue
        total, w = sum(o["heights"]), o["width"]
        for ch, e in zip(c["chunks"], o["dask"]):
            ctx.case(("sdask", repr(c["members"]), repr(ch)), nontrivial=o["ndefs"] >= 2,
                     sample=samp({"stacked_dask": {"member_heights": o["heights"], "width": w, "chunks": ch, "dask_chunks_seen": e.get("chunks")}}))
            ctx.count("stacked_dask_chunks")
            if not ("error" not in e and tiles_ok(e["chunks"], [total, w]) and same_ll(e, o["full"], None)):
                ctx.add_failure("C10.stacked_lonlats.dask", "stack with member heights %s, chunks=%s: the dask path differs from the numpy path (%s)"
                                % (o["heights"], ch, e.get("error", e.get("chunks"))), rep)
        ctx.case(("shist", repr(c["members"]), repr(c["history"])), nontrivial=True,
                 sample=samp({"stacked_cache_history": {"member_heights": o["heights"], "ops": c["history"]}}))
        ctx.count("stacked_cache_history")
        for i, (op, e) in enumerate(zip(c["history"], o["hist"])):
            if op[0] == "stack":
                ok = same_ll(e, o["full"], op[1]) and e.get("attr_is_result")
            else:
                ok = same_ll(e, o["def_full"][op[1]], op[2])
            if not ok:
                ctx.add_failure("C10.stacked_lonlats.cache_history", "stack with member heights %s: operation %d of the history %s returns something else "
                                "than on a fresh object" % (o["heights"], i, c["history"]), rep)
                break
    for j in range(0, len(L_dask), 300):
        texts.append(("c10_dask_%03d" % (j // 300), HDR + "Definition cases := [%s].\nEval vm_compute in (bad chk_dask cases).\n"
                      % ";\n".join(L_dask[j:j + 300]), L_dask[j:j + 300], "dask_blocks"))
    if L_memo:
        texts.append(("c10_memo", HDR + "Definition cases := [%s].\nEval vm_compute in (bad chk_memo cases).\n" % ";\n".join(L_memo), L_memo, "cache_memo"))

    # ================================================================ lazily requested coordinates of parent and children, ONE dask.compute
    names = ["proj x", "proj y", "lons", "lats"]
    for c, o in zip(jcases, obs["joint"]):
        area, keys = c["area"], c["keys"]
        anchored = all(sel(99, k[0])[:1] == [0] and sel(99, k[1])[:1] == [0] for k in keys)
        ctx.case(("joint", repr(area), repr(keys), repr(c["chunks"])), nontrivial=True,
                 sample=samp({"joint_compute": {"shape": [area["h"], area["w"]], "keys": keys, "chunks": c["chunks"], "child_shapes": o.get("shapes")}}))
        ctx.count("joint_compute_" + ("upper_left_anchored" if anchored else "other"))
        rep = {"oracle": "joint", "case": c}
        if "error" in o:
            ctx.add_failure("C10.getitem.joint_compute", "lazy coordinates of %s sliced by %s with chunks=%s raise %s" % (area, keys, c["chunks"], o["error"]), rep)
            continue
        if isinstance(o["joint"], dict):
            ctx.add_failure("C10.getitem.joint_compute", "area %s %s and its slices %s, coordinates requested with chunks=%s: ONE dask.compute of all of them raises %s"
                            % ((area["h"], area["w"]), area["ext"], keys, c["chunks"], o["joint"]["error"]), rep)
            continue
        for i, (j, a, nmp) in enumerate(zip(o["joint"], o["alone"], o["numpy"])):
            which = "the parent" if i < 4 else "slice %d" % (i // 4)
            tol = 0.0 if i % 4 < 2 else 1e-9
            if not close_grid(a, nmp, tol):
                ctx.add_failure("C10.lonlats.dask", "area %s sliced by %s, chunks=%s: %s of %s computed alone differ from the numpy path"
                                % ((area["h"], area["w"]), keys, c["chunks"], names[i % 4], which), rep)
                break
            if np.asarray(j).shape != np.asarray(a).shape or j != a:
                ctx.add_failure("C10.getitem.joint_compute", "area %s %s and its slices %s (shapes %s), coordinates requested lazily with chunks=%s and evaluated in "
                                "ONE dask.compute: %s of %s come back with shape %s, computed alone they have shape %s%s"
                                % ((area["h"], area["w"]), area["ext"], keys, o["shapes"], c["chunks"], names[i % 4], which,
                                   list(np.asarray(j).shape), list(np.asarray(a).shape), "" if np.asarray(j).shape != np.asarray(a).shape else " and other values"), rep)
                break

    # ================================================================ evaluate the model inside Coq
    texts = [t for t in texts if t[2]]
    t1 = time.time()
    res = ctx.coq_eval_many([(n, t) for n, t, _, _ in texts])
    sys.stderr.write("  timing: implementation driver %.1fs, oracles %.1fs, %d Coq case files %.1fs\n"
                     % (t_impl, t1 - t0 - t_impl, len(texts), time.time() - t1))
    for name, _, lines, what in texts:
        out, ok = res[name]
        if not ok:
            ctx.broken.append(("correspondence:" + what, "model evaluation failed: " + out[-300:]))
            continue
        bad = ints(out)
        if bad:
            ctx.broken.append(("correspondence:" + what, "model and implementation differ on %d of %d cases, e.g. %s"
                               % (len(bad), len(lines), lines[bad[0]][:400])))
    ctx.traces = len(L_chain)
    ctx.notes.append("lon/lat arrays go through PROJ (external oracle): the theorems hold for any pointwise inverse projection; "
                     "the implementation check compares lon/lats within 1e-7 deg and projection vectors within 1e-9 relative")
    ctx.notes.append("StackedAreaDefinition.get_lonlats data_slice rows must be non-negative ints (as produced by geometry._get_slice); "
                     "a plain slice object or None bounds are outside the modelled domain")


def replay(ctx, data):
    """Re-run one recorded failing input on the current implementation; True iff it still violates the property."""
    case = data.get("case", {})
    kind = case.get("oracle")
    sub = Replayer(ctx)
    if kind == "getitem":
        gc = {"area": case["area"], "keys": case["keys"], "vectors": "all", "lonlats": case["area"]["w"] * case["area"]["h"] <= 2000, "kind": "replay"}
        sub.check({"getitem": [gc]}, lambda: ([gc], []), "getitem")
    elif kind in ("stack", "stack_lonlats"):
        ds = case.get("data_slice")
        same_w = len({m["w"] for m in case["members"]}) == 1 and case.get("mode") != 3
        sc = {"members": case["members"], "lonlats": same_w, "data_slices": [ds], "nested": case.get("nested", False),
              "mode": case.get("mode", 9)}
        sub.check({"stack": [sc]}, None, "stack", sc)
    elif kind == "split":
        sc = {k_: case[k_] for k_ in ("area", "k", "window", "route") if k_ in case}
        sub.check({"split": [sc]}, None, "split", sc)
    elif kind == "concat":
        sub.check({"concat": [{"a": case["a"], "b": case["b"], "mode": 0}]}, None, "concat", {"a": case["a"], "b": case["b"], "mode": 0})
    elif kind == "swath":
        sub.check({"swath": [case["case"]]}, None, "swath", case["case"])
    elif kind == "swath_concat":
        sub.check({"swath_concat": [case["case"]]}, None, "swath_concat", case["case"])
    elif kind in ("area_paths", "stack_paths"):
        sub.check({}, None, kind, case["case"])
    elif kind == "joint":
        sub.check({}, None, kind, case["case"])
    return bool(sub.ctx.failures)


class Replayer:
    """Runs the oracles of run() on a single recorded case by substituting the generators."""

    def __init__(self, ctx):
        self.ctx = ctx

    def check(self, payload, gen, which, single=None):
        global gen_getitem, gen_stack, gen_split, gen_concat, gen_swath, gen_paths, gen_split_chain, gen_joint
        saved = (gen_getitem, gen_stack, gen_split, gen_concat, gen_swath, gen_paths, gen_split_chain, gen_joint)
        try:
            gen_getitem = (lambda ctx: gen()) if which == "getitem" else (lambda ctx: ([], []))
            gen_stack = (lambda ctx: [single]) if which == "stack" else (lambda ctx: [])
            gen_split = (lambda ctx: [single]) if which == "split" else (lambda ctx: [])
            gen_split_chain = lambda ctx: []
            gen_joint = (lambda ctx: [single]) if which == "joint" else (lambda ctx: [])
            gen_concat = (lambda ctx: [single]) if which == "concat" else (lambda ctx: [])
            gen_swath = (lambda ctx: ([single], [])) if which == "swath" else \
                ((lambda ctx: ([], [single])) if which == "swath_concat" else (lambda ctx: ([], [])))
            gen_paths = (lambda ctx: ([single], [])) if which == "area_paths" else \
                ((lambda ctx: ([], [single])) if which == "stack_paths" else (lambda ctx: ([], [])))
            run(self.ctx)
        finally:
            gen_getitem, gen_stack, gen_split, gen_concat, gen_swath, gen_paths, gen_split_chain, gen_joint = saved
